#!/bin/bash
# Applies a stored breaking change to /repo, runs the given checks, undoes it.
# usage: seed_run.sh <name> <tier> <ids...>
set -u
NAME=$1; TIER=$2; shift 2
cd /verif
if [ -n "$(git -C /repo status --porcelain --untracked-files=no)" ]; then echo "/repo is dirty"; exit 2; fi
git -C /repo apply /verif/seeded/$NAME/patch.diff || { echo "patch does not apply"; exit 2; }
for id in "$@"; do
  out=$(./check $id $TIER 2>&1); rc=$?
  echo "[$NAME] $id $TIER rc=$rc :: $(echo "$out" | grep -E "^$id $TIER")"
  echo "$out" | grep -A2 "^VIOLATION" | cut -c1-400 | head -9
done
git -C /repo checkout -- .
