#!/bin/bash
# Regression sweep of every stored seeded change WITHOUT touching /repo: for
# `vp run --with-repo`.  Points the snapshot's harness at the snapshot of /repo
# ($VP_RUN_REPO), applies each patch there, runs the quick check of the property
# it breaks, reverts.  One line per change.   usage: bg_seed_all.sh [name-glob]
cd "$(dirname "$0")/.."
R=${VP_RUN_REPO:?needs vp run --with-repo}
sed -i "s#\"/repo/#\"$R/#" harness/Cargo.toml
for d in $(for g in ${@:-"*"}; do ls -d seeded/$g/; done); do
  n=$(basename "$d"); [ -f "$d/meta.json" ] || continue
  p=$(python3 -c "import json;print(json.load(open('$d/meta.json'))['breaks_property'])")
  git -C "$R" apply "$PWD/$d/patch.diff" || { echo "OTHER $n $p :: patch does not apply"; continue; }
  out=$(./check $p quick 2>&1); rc=$?
  git -C "$R" checkout -- .
  if [ $rc -eq 1 ]; then r=CAUGHT; elif [ $rc -eq 0 ]; then r=MISSED; else r="OTHER(rc=$rc)"; fi
  echo "$r $n $p :: $(echo "$out" | grep -E 'signature' | head -1 | sed 's/^ *//')"
done
