#!/usr/bin/env python3
"""Generates /verif/MANIFEST.json from the table below (one entry per claimed
property).  Run after adding a property module to the harness."""
import json, os, subprocess

HERE = os.path.dirname(os.path.abspath(__file__))
VERIF = os.path.dirname(HERE)

# id -> (technique, level text, level note, design ref)
CLAIMED = {
    "C01": (
        "proptest differential: compiled tape (interpreter, point + slice, 11 register budgets) vs graph evaluation, bit-exact",
        "Generated-input search (proptest, shrinking, replay files): random expression DAGs over all opcodes and operand "
        "forms, multi-output, shared sub-expressions, every register budget down to the smallest the allocator accepts, "
        "compared bit-for-bit with per-opcode graph evaluation. Exploration: finds miscompilations that need a particular "
        "spill pattern or operand form; it does not prove their absence.",
        "Trusts Context::eval / per-opcode eval as the meaning of a graph (cross-checked against an independent reference in C12), "
        "proptest, and the host libm being one function for all callers in a process.",
        "DESIGN.md §3 C01",
    ),
}

CLAIMED["C02"] = (
    "proptest differential + local obligations: x86_64 JIT point/SIMD evaluators vs interpreter and per-opcode reference, all nodes exported",
    "Generated-input search: random DAGs sized to spill past the 12 native registers and to interleave libm calls with live "
    "registers, evaluated by the JIT point evaluator and the JIT SIMD evaluator at every slice length 0..=35; each node is checked "
    "against the reference meaning of its opcode on the JIT's own operand values (so a tolerated NaN / zero-sign difference "
    "cannot be amplified into a false alarm, and a defect is pinned to one opcode), every output is compared with the interpreter "
    "on the same tape, and result shapes are checked. Exploration, not proof.",
    "x86_64 only; aarch64 assembly not exercised. Trusts refsem (60 lines, cross-checked against two repository implementations), "
    "host libm identical for all callers. Worker processes are children, so a crash in generated code is caught and reported with its input.",
    "DESIGN.md §3 C02",
)
CLAIMED["C03"] = (
    "proptest local-obligation enclosure check: interval evaluators (interpreter + JIT) vs point values at sampled points of the box; interval transform vs point transform",
    "Generated-input search over DAGs x boxes (degenerate, tiny, wide, straddling zero and quadrant boundaries) x points of the box; "
    "per node, using the evaluator's own operand intervals, the point value must lie in the interval (NaN interval / NaN point excused "
    "as the property states). Exploration of the input space; an unsound interval rule shows up as a concrete (op, operand intervals, point).",
    "Point values from per-opcode graph evaluation. WGSL shader and aarch64 anchors not reachable on this host. One open finding (rand/mix of a zero) is excluded by construction and reported as KNOWN-FINDING.",
    "DESIGN.md §3 C03",
)

NOT_YET = {
}


def main():
    props = [json.loads(l) for l in open(os.path.join(VERIF, "properties.jsonl"))]
    checks = []
    na = []
    for p in props:
        pid = p["id"]
        if pid in CLAIMED:
            tech, text, note, ref = CLAIMED[pid]
            checks.append(
                {
                    "property_id": pid,
                    "quick_cmd": f"./check {pid} quick",
                    "thorough_cmd": f"./check {pid} thorough",
                    "evidence_file": f"/verif/evidence/{pid}.json",
                    "replay_cmd_template": "./check --replay {path}",
                    "engine": "fv",
                    "level_claimed": {
                        "category": "exploration",
                        "text": text,
                        "design_ref": ref,
                    },
                    "level_note": note,
                    "technique": tech,
                }
            )
        else:
            na.append(
                {
                    "property_id": pid,
                    "reason": NOT_YET.get(
                        pid,
                        "check not built yet in this session (planned: proptest oracle per DESIGN.md §3); not claimed until it runs clean",
                    ),
                }
            )
    hooks_commits = (
        subprocess.run(
            ["git", "-C", "/repo", "log", "--format=%H", "--grep=^verif hook"],
            capture_output=True,
            text=True,
        )
        .stdout.split()
    )
    m = {
        "version": 1,
        "setup_cmd": "cd harness && CARGO_NET_OFFLINE=true cargo build --profile verif",
        "hooks": {
            "guard": "cfg(fidget_verif)",
            "enable": "harness/.cargo/config.toml passes --cfg fidget_verif to every crate (RUSTFLAGS); the only hook is the schedule-point callback in fidget_core::render::CancelToken::is_cancelled",
            "baseline_off_cmd": "cd /repo && cargo nextest run --workspace --no-fail-fast --test-threads 8 --offline || cargo test --workspace --no-fail-fast --offline",
            "source_commits": hooks_commits,
            "add_only": True,
        },
        "engines": [
            {
                "name": "fv",
                "path": "/verif/harness",
                "serves_properties": sorted(CLAIMED),
                "kind_free_text": "Rust binary: proptest strategies + per-property oracles; parent process spawns worker child processes (crash isolation, breadcrumbs), merges evidence, replays /verif/regress first, matches failures against /verif/known_findings.json",
            }
        ],
        "checks": checks,
        "not_applicable": na,
        "notes": "All checks: ./check <ID> <quick|thorough>; exit 0 held / 1 violation (VIOLATION line + replay file) / 2 inconclusive. "
        "VERIF_SEED selects the PRNG stream. Known findings: /verif/known_findings.json; regression replays: /verif/regress.",
    }
    if not na:
        m["not_applicable"] = []
    json.dump(m, open(os.path.join(VERIF, "MANIFEST.json"), "w"), indent=1)
    print(f"MANIFEST.json: {len(checks)} checks, {len(na)} not claimed")


if __name__ == "__main__":
    main()
