#!/usr/bin/env python3
"""Generates /verif/MANIFEST.json from the table below (one entry per claimed
property).  Run after adding a property module to the harness."""
import json, os, subprocess

HERE = os.path.dirname(os.path.abspath(__file__))
VERIF = os.path.dirname(HERE)

# id -> (technique, level text, level note, design ref)
CLAIMED = {
    "C01": (
        "proptest differential: compiled tape (interpreter, point + slice, 11 register budgets) vs graph evaluation, bit-exact",
        "Generated-input search (proptest, shrinking, replay files): random expression DAGs over all opcodes and operand "
        "forms, multi-output, shared sub-expressions, every register budget down to the smallest the allocator accepts, "
        "compared bit-for-bit with per-opcode graph evaluation. Exploration: finds miscompilations that need a particular "
        "spill pattern or operand form; it does not prove their absence.",
        "Trusts Context::eval / per-opcode eval as the meaning of a graph (cross-checked against an independent reference in C12), "
        "proptest, and the host libm being one function for all callers in a process.",
        "DESIGN.md §3 C01",
    ),
}

CLAIMED["C02"] = (
    "proptest differential + local obligations: x86_64 JIT point/SIMD evaluators vs interpreter and per-opcode reference, all nodes exported",
    "Generated-input search: random DAGs sized to spill past the 12 native registers and to interleave libm calls with live "
    "registers, evaluated by the JIT point evaluator and the JIT SIMD evaluator at every slice length 0..=35; each node is checked "
    "against the reference meaning of its opcode on the JIT's own operand values (so a tolerated NaN / zero-sign difference "
    "cannot be amplified into a false alarm, and a defect is pinned to one opcode), every output is compared with the interpreter "
    "on the same tape, and result shapes are checked. Exploration, not proof.",
    "x86_64 only; aarch64 assembly not exercised. Trusts refsem (60 lines, cross-checked against two repository implementations), "
    "host libm identical for all callers. Worker processes are children, so a crash in generated code is caught and reported with its input.",
    "DESIGN.md §3 C02",
)
CLAIMED["C03"] = (
    "proptest local-obligation enclosure check: interval evaluators (interpreter + JIT) vs point values at sampled points of the box; interval transform vs point transform",
    "Generated-input search over DAGs x boxes (degenerate, tiny, wide, straddling zero and quadrant boundaries) x points of the box; "
    "per node, using the evaluator's own operand intervals, the point value must lie in the interval (NaN interval / NaN point excused "
    "as the property states). Exploration of the input space; an unsound interval rule shows up as a concrete (op, operand intervals, point).",
    "Point values from per-opcode graph evaluation. WGSL shader and aarch64 anchors not reachable on this host. One open finding (rand/mix of a zero) is excluded by construction and reported as KNOWN-FINDING.",
    "DESIGN.md §3 C03",
)

CLAIMED["C04"] = (
    "proptest stateful chains: trace -> simplify -> compare child with original parent on the traced domain, all evaluator kinds, JIT and 9 interpreter budget pairs",
    "Generated-input search over DAGs rich in min/max/and/or, multi-output, with chains of up to 4 nested simplifications whose traces come "
    "from interval or point evaluators of either backend; after each step the newest child is compared bit-for-bit with the ORIGINAL parent at points "
    "of the traced box under point, float-slice and gradient-slice evaluators (value and the three derivative components), its interval evaluator must stay sound, simplify must accept every trace "
    "just returned, and variable numbering / output count must be kept. Exploration.",
    "Mismatches downstream of listed open findings (F7 zero-tie, F11 NaN-from-infinity, F12 grad abs(-0)) are attributed by a reference evaluation of the "
    "whole graph at the failing point (for the first step of a chain, F11 and F6 additionally need an interval-side witness on the traced box) and reported as KNOWN-FINDING; everything else is a violation. x86_64 only.",
    "DESIGN.md §3 C04",
)
CLAIMED["C05"] = (
    "proptest local derivative obligations (f64 textbook rules on the evaluator's own operand duals, arbitrary seeds) + symbolic derivative vs independent f64 forward mode + Grad transform vs Jacobian",
    "Generated-input search: per node, the gradient evaluators' (interpreter + JIT) value must equal the opcode's point meaning and each partial the "
    "chain rule applied to the operands' own partials, with arbitrary (non-axis) seed gradients; Context::deriv is evaluated in f64 and compared with an "
    "independent forward-mode derivative; the Grad input transform is compared with the matrix Jacobian. Exploration with stated tolerance 1e-4 of the sum of |terms|.",
    "Points within 1e-3 (relative) of a non-differentiable locus and obligations outside a comfortable f32 range are skipped and counted. x86_64 only.",
    "DESIGN.md §3 C05",
)
CLAIMED["C06"] = (
    "proptest brute-force reference: every pixel of generated scenes vs graph evaluation at the pixel's sample position (bit-exact in pixel-perfect mode)",
    "Generated scenes (CSG / random DAGs / bundled models x image sizes 1..150 non-square x transforms x tile lists x pixel-perfect x backend x thread pool); "
    "every pixel is re-derived independently: sample position through the documented screen-to-world map and the world-to-model matrix, value by graph "
    "evaluation; Fill pixels must have the right sign, Value pixels the exact value and an inside report that follows it (a NaN is outside). Exploration of scene/configuration space; each scene is checked exhaustively.",
    "Trusts nalgebra for matrix products / transform_point and per-opcode graph evaluation for values (C01/C12).",
    "DESIGN.md §3 C06",
)
CLAIMED["C07"] = (
    "proptest brute-force reference: per-voxel evaluation of the whole (extended) grid vs rendered depth; normals vs gradient evaluator on the unsimplified function and vs the model-space gradient through the f64 Jacobian of the view map",
    "Generated 3D scenes with occlusion, grids with width != height != depth and not multiples of the root tile, tile lists, affine and perspective views, both backends, thread "
    "pools; every column is re-derived by evaluating every voxel; depth, saturation and empty conventions and normals are compared exactly. Exploration; each scene exhaustive.",
    "Columns with an inside voxel above the grid are outside the claim (counted). Normals are compared bit-for-bit with the library's gradient evaluator on the unsimplified shape under the same view matrix, and (independently of the library's Grad transform) with the model-space gradient pushed through the f64 Jacobian of the view map, tolerance 1e-3 of the summed magnitudes.",
    "DESIGN.md §3 C07",
)

CLAIMED["C08"] = (
    "proptest generated CSG x depth x transform x backend x threads; mesh validity predicates (edge-manifoldness always; orientation, vertex placement and volume vs a reference occupancy grid for resolved shapes)",
    "Generated-input search with validity predicates rather than one expected mesh: closedness (each directed edge once, reverse once), no degenerate "
    "triangles, finite coordinates for every generated shape; for shapes resolved at the chosen depth, outward winding (signed volume and field increase "
    "along normals) and enclosed volume against a brute-force occupancy grid at half the cell size. Exploration.",
    "Resolution gate and escaped-vertex detection are computed from the reference grid / the field, not from the mesher. Two open findings (F8 pinched edge, F9 unclamped QEF vertex) are matched by signature and reported as KNOWN-FINDING.",
    "DESIGN.md §3 C08",
)

CLAIMED["C09"] = (
    "proptest schedule/fault injection: pooled + perturbed + cancelled runs vs sequential reference, cancel exactly at the k-th poll through the cfg(fidget_verif) hook; shared-tape multi-thread differential",
    "Generated workloads (2D, 3D, mesh) under custom pools of 1-16 threads with seeded yields/delays injected at every cancellation poll, and "
    "cancellation before start, exactly at poll k (deterministic: the polling thread sets the token) or asynchronously; results must equal the "
    "sequential run or be None exactly as the property states; one tape evaluated from many threads must give each its single-threaded results. "
    "Schedules are sampled, not enumerated: exploration / fault injection, not model checking.",
    "The hook only observes and perturbs cancellation polls (start of each tile task / octree cell). rayon's work stealing itself is not controlled.",
    "DESIGN.md §3 C09",
)
CLAIMED["C10"] = (
    "proptest stateful (model-based) histories: build / eval / simplify / recycle / RenderHandle with shared long-lived objects vs the same call on fresh objects",
    "Generated operation sequences over functions of different sizes hand storage, evaluators and the workspace from one function to another; "
    "after every evaluation and simplification the identical call is repeated on brand-new objects and outputs, traces and sizes are compared "
    "bit-for-bit. The whole history shrinks as one value. Exploration.",
    "Fresh objects are rebuilt from the spec and the recorded simplification chain; VM (255 registers) and x86_64 JIT.",
    "DESIGN.md §3 C10",
)
CLAIMED["C11"] = (
    "proptest totality search in child processes: overflow-biased DAGs x finite boxes/points/slices up to f32::MAX x 4 evaluator kinds x 2 backends; malformed argument lists must be Err",
    "Generated-input robustness search: every evaluator entry point is driven with finite inputs over programs biased towards overflow and invalid "
    "operations, under catch_unwind inside a child process (abort / segfault = worker death, reported with the breadcrumb input); returned intervals "
    "must be well-formed; malformed argument lists must be reported as errors. Exploration.",
    "Values are not judged here. One open finding (JIT half-NaN intervals, F14) is matched by signature.",
    "DESIGN.md §3 C11",
)

CLAIMED["C12"] = (
    "proptest differential: un-rewritten reference evaluation vs Context constructors / Tree import / from_text; structural laws; deep expressions on a 2 MiB stack in a child process",
    "Generated expressions with sharing and special-value constants are evaluated operation by operation by an independent reference and compared "
    "(==, when every intermediate is finite and no zero reaches a sign-sensitive opcode) with the node built through three routes; hash-consing, "
    "import/export round trip, tree equality / hashing and mutation sensitivity are checked on the same cases; 1e5-1e6 deep expressions are built, "
    "compared, hashed, imported, exported and dropped on a 2 MiB stack. Exploration.",
    "refsem is the meaning of an un-rewritten expression (tied to two repository implementations by C01/C02).",
    "DESIGN.md §3 C12",
)
CLAIMED["C13"] = (
    "proptest metamorphic/reference: independent substitution semantics over generated remap arenas, exact dyadic arithmetic",
    "Generated arenas nest remap_xyz and remap_affine in any order with shared sub-trees under several frames; an independent substitution "
    "semantics (outermost remap applied to the coordinates first) is computed in f64 with every intermediate proven exactly representable, so the "
    "comparison with import + eval is exact. Exploration.",
    "Only the builder API is exercised (hand-nested RemapAffine nodes are outside the property).",
    "DESIGN.md §3 C13",
)
CLAIMED["C14"] = (
    "proptest reference: Shape evaluators through every entry point vs Context::eval with an explicit variable map and an exactly transformed position",
    "Generated functions give each of up to 35 variables its own distinct dyadic coefficient and a randomised traversal order; ShapeVars are "
    "filled in a generated order with extras; dyadic affine / projective transforms make the expected position exact; every public entry point of the "
    "point, bulk, interval and gradient shape evaluators is compared; missing variables, wrong array lengths and simplification are covered. Exploration.",
    "Context::eval is the reference for the underlying function (C01/C12).",
    "DESIGN.md §3 C14",
)

CLAIMED["C15"] = (
    "proptest differential: an interpreter written from the bytecode format documentation vs the VM interpreter on the same tape; index-bound and marker predicates",
    "Generated tapes at register budgets small enough to force Load/Store are serialised and executed by an independent interpreter that knows only the "
    "documented format (markers, opcode table from iter_ops(), 0xFF immediates, Mem direction flags); outputs must equal the VM interpreter bit-for-bit, "
    "all indices must respect reg_count()/mem_count(), and no operand may use the reserved register. Exploration.",
    "The GPU consumer (tape_interpreter.wgsl) is not executed here; arithmetic of the reference interpreter comes from refsem.",
    "DESIGN.md §3 C15",
)
CLAIMED["C16"] = (
    "proptest metamorphic + closed-form reference: T(s)(p) = s(T^-1 p) with independently computed inverse maps, closed-form inside tests for primitives, boolean laws for CSG, named constants",
    "Generated nests of all 26 library structs with generated parameters; each node is checked against its documented geometry at generated points: "
    "primitives by closed-form inside tests, transforms by the metamorphic relation T(s)(p) = s(T^-1 p) with the inverse map computed independently "
    "in f64, CSG by the boolean combination of the arguments' own signs, Blend by its documented formula. Exploration of parameter space.",
    "Tolerance 2e-4 x size x Lipschitz bound; RevolveY's axis-position sign convention is not fixed by its documentation, either is accepted.",
    "DESIGN.md §3 C16",
)

CLAIMED["C17"] = (
    "proptest grammar-based differential: generated scripts vs the Tree built by the corresponding Rust calls (structural equality)",
    "Scripts are generated from a grammar of tree expressions and shape-constructor call forms together with the expected Tree; the engine's "
    "result must be structurally equal. Covers number-on-the-left operators, method forms, array-to-union coercion, let bindings, map / positional "
    "/ ordered / tree-first / chained / two-tree / reduction forms, vecN and array vectors, vec2->vec3 promotion, and rejection of comparisons. Exploration.",
    "Only forms documented in fidget_rhai's crate docs are generated; number-op-number sub-expressions are never generated.",
    "DESIGN.md §3 C17",
)
CLAIMED["C18"] = (
    "proptest stateful histories on Canvas2/Canvas3 with invariants checked after every event",
    "Generated event histories (interact, begin_drag, drag, end_drag, zoom, resize) with arbitrary screen positions, scroll amounts and image "
    "sizes; after every event the zoom-about-cursor, pan-keeps-grabbed-point, rotate, changed-flag and matrix-composition invariants are checked "
    "against a small model that mirrors only whether a drag is active. The whole history shrinks as one value. Exploration.",
    "Scales outside 1e-20..1e20 are treated as outside the domain (degenerate view).",
    "DESIGN.md §3 C18",
)
CLAIMED["C19"] = (
    "proptest generated well-conditioned consistent linear systems with known solutions; residual / key-set / exact-start / backend-agreement predicates",
    "Generated diagonally dominant systems of 1-40 unknowns with random sparsity, a random subset of parameters fixed at their solution values and "
    "random starts; the oracle is a validity predicate (exactly the free keys, residual of the original system <= 2e-5 (1 + |b|), bit-identical return for exact starts, "
    "backend agreement), not one expected answer. Exploration.",
    "Systems with no free parameter are outside the stated quantifier. HashMap iteration order makes the solver's internal ordering vary between runs; the predicates do not depend on it.",
    "DESIGN.md §3 C19",
)
CLAIMED["C20"] = (
    "proptest local obligations on traces: symbolic pass over the public register tape binds each choice clause to the evaluator's own exported operand values; shape checks on bulk outputs and tapes",
    "Generated DAGs with many choice clauses, every node exported; for interpreter and JIT point and interval evaluators each reported trace entry "
    "must equal the choice implied by the documented rule on the operands the evaluator itself produced, traces must have choice_count entries and "
    "no Unknown, None only when nothing is decided, the two back ends agree clause by clause, and bulk results / tapes have the advertised shapes. Exploration.",
    "Operand values are read from the evaluator's own outputs, so tolerated zero-sign / NaN differences upstream cannot cause false alarms.",
    "DESIGN.md §3 C20",
)

NOT_YET = {
}

# properties whose thorough tier has the coverage-guided stage (see ./check)
FUZZED = {"C01", "C02", "C03", "C04", "C05", "C10", "C11", "C12", "C13", "C14", "C15", "C16", "C17", "C18", "C20"}


def main():
    props = [json.loads(l) for l in open(os.path.join(VERIF, "properties.jsonl"))]
    checks = []
    na = []
    for p in props:
        pid = p["id"]
        if pid in CLAIMED:
            tech, text, note, ref = CLAIMED[pid]
            if pid in FUZZED:
                tech += "; thorough tier adds a coverage-guided libFuzzer campaign over the same generator and oracle"
                text += (
                    " The thorough tier then runs libFuzzer (cargo-fuzz, ASan build, 16 jobs) whose input bytes are the random stream of the "
                    "same proptest strategy and whose oracle is the same check: coverage of the instrumented library steers mutations of "
                    "the generator's choices; failures are reduced, written as ordinary replay files and confirmed in the ordinary build."
                )
            checks.append(
                {
                    "property_id": pid,
                    "quick_cmd": f"./check {pid} quick",
                    "thorough_cmd": f"./check {pid} thorough",
                    "evidence_file": f"/verif/evidence/{pid}.json",
                    "replay_cmd_template": "./check --replay {path}",
                    "engine": "fv",
                    "level_claimed": {
                        "category": "exploration",
                        "text": text,
                        "design_ref": ref,
                    },
                    "level_note": note,
                    "technique": tech,
                }
            )
        else:
            na.append(
                {
                    "property_id": pid,
                    "reason": NOT_YET.get(
                        pid,
                        "check not built yet in this session (planned: proptest oracle per DESIGN.md §3); not claimed until it runs clean",
                    ),
                }
            )
    hooks_commits = (
        subprocess.run(
            ["git", "-C", "/repo", "log", "--format=%H", "--grep=^verif hook"],
            capture_output=True,
            text=True,
        )
        .stdout.split()
    )
    m = {
        "version": 1,
        "setup_cmd": "cd harness && CARGO_NET_OFFLINE=true cargo build --profile verif",
        "hooks": {
            "guard": "cfg(fidget_verif)",
            "enable": "harness/.cargo/config.toml passes --cfg fidget_verif to every crate (RUSTFLAGS); the only hook is the schedule-point callback in fidget_core::render::CancelToken::is_cancelled",
            "baseline_off_cmd": "cd /repo && (cargo nextest run --workspace --no-fail-fast --tool-config-file pb:/w/lib/nextest.toml --profile pb --test-threads 8 --offline || cargo test --workspace --no-fail-fast --offline)",
            "source_commits": hooks_commits,
            "add_only": True,
        },
        "engines": [
            {
                "name": "fv",
                "path": "/verif/harness",
                "serves_properties": sorted(CLAIMED),
                "kind_free_text": "Rust binary: proptest strategies + per-property oracles; parent process spawns worker child processes (crash isolation, breadcrumbs), merges evidence, replays /verif/regress first, matches failures against /verif/known_findings.json",
            },
            {
                "name": "fz",
                "path": "/verif/harness/fuzz",
                "serves_properties": sorted(FUZZED),
                "kind_free_text": "cargo-fuzz / libFuzzer target (nightly, ASan) linking the same harness library: bytes -> proptest pass-through RNG -> the property's strategy -> the property's check; run by tools/fuzz_stage.sh as the second stage of the thorough tier",
            }
        ],
        "checks": checks,
        "not_applicable": na,
        "notes": "All checks: ./check <ID> <quick|thorough>; exit 0 held / 1 violation (VIOLATION line + replay file) / 2 inconclusive. "
        "VERIF_SEED selects the PRNG stream. Known findings: /verif/known_findings.json; regression replays: /verif/regress.",
    }
    if not na:
        m["not_applicable"] = []
    json.dump(m, open(os.path.join(VERIF, "MANIFEST.json"), "w"), indent=1)
    print(f"MANIFEST.json: {len(checks)} checks, {len(na)} not claimed")


if __name__ == "__main__":
    main()
