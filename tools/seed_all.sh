#!/bin/bash
# Re-runs every stored seeded change against the quick check of the property it
# breaks (applies the patch to /repo, runs, reverts).  One line per change.
# usage: tools/seed_all.sh [name-glob]
cd "$(dirname "$0")/.."
for d in seeded/${1:-*}/; do
  n=$(basename "$d"); [ -f "$d/meta.json" ] || continue
  p=$(python3 -c "import json;print(json.load(open('$d/meta.json'))['breaks_property'])")
  out=$(tools/seed_run.sh "$n" quick "$p" 2>&1)
  if echo "$out" | grep -q "rc=1"; then r=CAUGHT; elif echo "$out" | grep -q "rc=0"; then r=MISSED; else r="OTHER"; fi
  echo "$r $n $p :: $(echo "$out" | grep -E 'signature' | head -1 | sed 's/^ *//')"
done
