#!/bin/bash
# Round-5 convenience: confirm a change left in ${SEED_ROOT:-/tmp/seed5}/<ID>, run the given
# quick checks against it, remove the scratch worktree.
# usage: seed_r5.sh <ID> <name> <demo-crate> "<crates to test>" <check ids...>
ID=$1; NAME=$2; DC=$3; CR=$4; shift 4
cd /verif
SEED_ROOT=${SEED_ROOT:-/tmp/seed5} tools/seed_confirm.sh $ID $NAME $DC "$CR" 2>&1 | tail -9
tools/seed_run.sh $NAME quick "$@" 2>&1 | cut -c1-600
git -C /repo worktree remove --force ${SEED_ROOT:-/tmp/seed5}/$ID
