#!/bin/bash
# Confirms an independently written breaking change left in /tmp/seed/<id>:
#   existing tests of the given crates pass with it, the demo fails with it and
#   passes without it.  Then stores patch + demo under /verif/seeded/<name>/.
# usage: seed_confirm.sh <worktree-id> <name> <demo-crate> "<crates to test>"
set -u
ID=$1; NAME=$2; DEMOCRATE=$3; CRATES=$4
WT=${SEED_ROOT:-/tmp/seed}/$ID
cd $WT || exit 2
export CARGO_TARGET_DIR=$WT/target
DEMO=$(git status --porcelain -uall | grep '^??' | awk '{print $2}' | grep -E 'tests/.*\.rs$' | head -1)
[ -z "$DEMO" ] && { echo "no demo file found"; exit 2; }
git diff > ${SEED_ROOT:-/tmp/seed}/$ID.patch
echo "patch: $(git diff --stat | tail -1)   demo: $DEMO"
mv $DEMO ${SEED_ROOT:-/tmp/seed}/$ID.demo.rs
PKGS=""; for c in $CRATES; do PKGS="$PKGS -p $c"; done
echo "== existing tests with the change ($CRATES)"
cargo test $PKGS --offline 2>&1 | grep -E "^test result|FAILED|error(\[|:)" | sort | uniq -c | head
cp ${SEED_ROOT:-/tmp/seed}/$ID.demo.rs $DEMO
T=$(basename $DEMO .rs)
echo "== demo with the change (must fail)"
cargo test -p $DEMOCRATE --test $T --offline 2>&1 | grep -E "^test result|error(\[|:)" | head -3
git stash -q
echo "== demo without the change (must pass)"
cargo test -p $DEMOCRATE --test $T --offline 2>&1 | grep -E "^test result|error(\[|:)" | head -3
git stash pop -q
mkdir -p /verif/seeded/$NAME
cp ${SEED_ROOT:-/tmp/seed}/$ID.patch /verif/seeded/$NAME/patch.diff
cp $DEMO /verif/seeded/$NAME/$(basename $DEMO)
cp SEEDED.md /verif/seeded/$NAME/SEEDED.md 2>/dev/null
echo "stored in /verif/seeded/$NAME"
