#!/usr/bin/env python3
"""Writes the prompt given to each fresh sub-agent that seeds a breaking change.
usage: mkseedprompts.py <round-dir under /tmp, e.g. /tmp/seed> [ids...]
The agent sees only the property record, its scratch worktree and (from round 2 on)
the location already used by an earlier change, so that it picks another mechanism."""
import json, sys
root = sys.argv[1]
ids = sys.argv[2:]
props = {json.loads(l)['id']: json.loads(l) for l in open('/verif/properties.jsonl')}
AVOID = {
 'C01': 'the register allocator\'s spill handling for reg/reg non-commutative ops (fidget-core/src/compiler/alloc.rs)',
 'C02': 'save/restore of ymm registers around external calls in fidget-jit/src/x86_64/float_slice.rs',
 'C03': 'save/restore of xmm registers around external calls in fidget-jit/src/x86_64/interval.rs',
 'C04': 'RegOp::has_choice / the or-with-immediate opcodes',
 'C05': 'save/restore of registers around external calls in fidget-jit/src/x86_64/grad_slice.rs',
 'C06': 'the fill decision on a NaN interval in fidget-raster/src/pixel.rs',
 'C07': 'the interval-proved fill range in fidget-raster/src/voxel.rs',
 'C08': 'the cell-collapse test in fidget-mesh (octree collapse of children)',
 'C09': 'the multi-threaded octree subdivision depth in fidget-mesh',
 'C10': 'the choices buffer resize/fill in the VM tracing evaluators',
 'C11': 'Interval multiplication special-casing in fidget-core/src/types/interval.rs',
 'C12': 'the Hash implementation of TreeOp constants',
 'C13': 'the import cache key in Context::import',
 'C14': 'impl Transformable for Grad',
 'C15': 'the packing of MixImmReg in fidget-bytecode',
 'C16': 'impl From<Intersection> for Tree',
 'C17': 'build_transform\'s default hint in fidget-rhai/src/shapes.rs',
 'C18': 'RotateHandle::yaw',
 'C19': 'the Parameter::Fixed arm of Solver::get_jacobian',
 'C20': 'the NaN block of the x86_64 interval build_max',
}
AVOID2 = {
 'C01': 'RegisterAllocator::op_output (outputs already spilled to memory)',
 'C02': 'the round sequence of the x86_64 JIT point evaluator',
 'C03': 'the x86_64 JIT interval abs sequence',
 'C04': 'the choice recorded for max(reg, imm) in the interpreter point evaluator',
 'C05': 'the symbolic derivative of mod in Context::deriv',
 'C06': 'render_tiles in fidget-raster/src/lib.rs (tile grid dimensions)',
 'C07': 'the z-layer loop bound in voxel render_tile',
 'C08': 'the NaN-gradient guard in OctreeBuilder::leaf',
 'C09': 'where OctreeBuilder::recurse polls the cancel token',
 'C10': 'RegisterAllocator::reset (spare_memory)',
 'C11': 'VarMap::check_bulk_arguments',
 'C12': 'constant folding in Context::op_binary',
 'C13': 'the affine frame construction in Context::import',
 'C14': 'ShapeBulkEval::eval_raw scratch population',
 'C15': 'the numbering of BytecodeOp::Mem',
 'C16': 'Vec3::map in fidget-shapes/src/types.rs',
 'C17': 'the comparison-ban handlers in fidget-rhai/src/tree.rs',
 'C18': 'Canvas3::interact ending the drag when the cursor leaves',
 'C19': 'the early-exit test of the solve loop',
 'C20': 'the simplify flag of AndRegImm in the interpreter interval evaluator',
}
AVOID3 = {
 'C01': 'graph flattening / parent counting in SsaTape::new',
 'C02': 'the SIMD `and` sequence of the x86_64 JIT',
 'C03': 'impl Transformable for Interval',
 'C04': 'the CopyReg emitted by VmData::simplify for a resolved reg/imm choice',
 'C05': 'impl Transformable for Grad',
 'C06': 'the scratch z coordinate in Worker::render_tile_pixels (2D)',
 'C07': 'the negative-value test in the voxel column search',
 'C08': 'the vertex transform back to model space in Octree::build',
 'C09': 'the no-pool branch of render_tiles',
 'C10': 'BulkVmEval::resize_slots',
 'C11': 'Interval::quadrant',
 'C12': 'impl PartialEq for TreeOp',
 'C13': 'the identity shortcut / matrix composition in Tree::remap_affine',
 'C14': 'the transform decision in ShapeTracingEval::eval_raw',
 'C15': 'impl From<RegOp> for BytecodeOp',
 'C16': 'the named Plane constants',
 'C17': 'the (Dynamic, Tree) operator overload',
 'C18': 'the changed flag of Canvas2::zoom',
 'C19': 'where fixed parameters are written into the point scratch (Solver::new / get_err)',
 'C20': 'saving / restoring the choice pointer around calls in the x86_64 point JIT',
}
AVOID4 = {
 'C01': 'slot indexing in the interpreter point evaluator (fidget-core/src/vm/mod.rs)',
 'C02': 'the displacement encoding of input loads in the x86_64 JIT point evaluator',
 'C03': 'the round sequence of the x86_64 JIT interval evaluator',
 'C04': 'the (Memory, Unassigned) arm of RegisterAllocator::op_reg_reg',
 'C05': 'Load / Store handling in the interpreter gradient evaluator',
 'C06': 'pixel_offset / root-tile offsets in fidget-raster',
 'C07': 'the root tile grid order in the voxel renderer',
 'C08': 'the cell classification of a NaN interval in the octree builder',
 'C09': 'the per-worker normal / depth scratch of the voxel renderer',
 'C10': 'the growth path of the simplification workspace binding table',
 'C11': 'the short-batch scratch buffers of the JIT bulk evaluators',
 'C12': 'the recursive fast path of impl Drop for Tree',
 'C13': 'the leaf shortcut of Tree::remap_xyz',
 'C14': 'register save / restore offsets around calls in the x86_64 JIT point evaluator',
 'C15': 'the reserved-register check in Bytecode::new',
 'C16': 'the radius-zero special case of Blend',
 'C17': 'integer literal coercion in fidget-rhai',
 'C18': 'the order of resize and drag handling in Canvas2::interact',
 'C19': 'the input pointer table of the JIT bulk evaluators',
 'C20': 'the decided / undecided test of the x86_64 interval build_min',
}
AVOID5 = {
 'C01': 'Lru::poke (fidget-core/src/compiler/lru.rs)',
 'C02': 'call_fn_unary of the x86_64 JIT point evaluator',
 'C03': 'the ambiguous branch of build_or in the x86_64 JIT interval evaluator',
 'C04': 'the Memory arm of RegisterAllocator::op_output',
 'C05': 'build_sqrt of the x86_64 JIT gradient evaluator',
 'C06': 'RegionSize::screen_to_world',
 'C07': 'the comparison of the depth clamp in the voxel tile merge',
 'C08': 'the octree / dual-contouring code touched by four earlier experiments (collapse test, NaN-gradient guard, vertex transform, NaN-interval cell classification)',
 'C09': 'the no-pool branch of Image::apply_effect',
 'C10': 'the list of output arrays in JitBulkEval::eval',
 'C11': 'the scratch columns of ShapeBulkEval::eval_raw',
 'C12': 'the de-duplication cache of Context::export',
 'C13': 'the frame push for RemapAxes in Context::import',
 'C14': 'the variable map of the child in VmData::simplify',
 'C15': 'RegTape::repack_map',
 'C16': 'the cache insert for shared binary nodes in Context::import',
 'C17': 'the order of type classification in value_from_dynamic (fidget-rhai/src/shapes.rs)',
 'C18': 'View3::rot_mat',
 'C19': 'a dense-system fast path in Solver::get_jacobian',
 'C20': 'BulkVmEval::resize_slots',
}
AVOID6 = {
 'C01': 'the Output op of the interpreter bulk evaluators (fidget-core/src/vm/mod.rs)',
 'C02': 'an immediate-register cache in the x86_64 JIT point assembler',
 'C03': 'the branch-cut test of Interval::atan2',
 'C04': 'the register backups around calls in the x86_64 JIT point assembler',
 'C05': 'build_mul of the x86_64 JIT gradient assembler',
 'C06': 'the tile region handed to the interval evaluator in the 2D renderer (render_tile_recurse)',
 'C07': 'TileSizesRef::pixel_offset',
 'C08': 'QuadraticErrorSolver::add_intersection',
 'C09': 'Octree::check_done',
 'C10': 'the variable map kept by VmData::simplify',
 'C11': 'the NaN guard of Interval::exp',
 'C12': 'unary-chain peepholes in Context::op_unary',
 'C13': 'negation folding in Context::add / Context::mul',
 'C14': 'ShapeBulkEval::var_value',
 'C15': 'a peephole in the emission loop of Bytecode::new',
 'C16': 'the sine / cosine of the angle in impl From<Rotate> for Tree',
 'C17': 'impl FromDynamic for Vec3',
 'C18': 'the centre correction of View2::zoom / View3::zoom',
 'C19': 'an immediate-register cache in the x86_64 JIT gradient assembler',
 'C20': 'the lowering of min / max with an infinite immediate in the JIT',
}
AVOID7 = {
 'C01': 'the reference meaning of round in UnaryOpcode::eval (fidget-core/src/context/op.rs)',
 'C02': 'the tie arm of build_min in the x86_64 JIT point assembler',
 'C03': 'the single-value test of Interval::mix',
 'C04': 'Interval::max_choice on touching ranges',
 'C05': 'the rounding constant of build_round in the x86_64 JIT gradient assembler',
 'C06': 'the lift of the 3x3 view matrix to 4x4 in the 2D worker (fidget-raster/src/pixel.rs)',
 'C07': 'TileSizesRef::new (trimming the tile list to the image size)',
 'C08': 'LeafHermiteData::merge (invalid-QEF marker)',
 'C09': 'CancelToken::cancel',
 'C10': 'the same-operand-in-memory arm of RegisterAllocator::op_reg_reg',
 'C11': 'the same-operand-in-memory arm of RegisterAllocator::op_reg_reg',
 'C12': 'the frame part of the cache key in Context::import',
 'C13': 'idempotence shortcuts in Context::min / Context::max',
 'C14': 'the divide in impl Transformable for Interval',
 'C15': 'RegOp::visit_regs',
 'C16': 'multiplication by -1 in Context::mul',
 'C17': 'the variable resolver of the scripting engine (fidget-rhai/src/lib.rs)',
 'C18': 'View3::translate',
 'C19': 'multiplication by -1 in Context::mul',
 'C20': 'the order of the zero and NaN tests in Interval::or_choice',
}
AVOID8 = {
 'C01': 'the MaxRegReg arm of the interpreter many-point evaluator',
 'C02': 'build_neg of the x86_64 JIT SIMD assembler',
 'C03': 'register staging in build_mul of the x86_64 JIT interval assembler',
 'C04': 'build_copy of the x86_64 JIT gradient assembler',
 'C05': 'Grad::min / Grad::max',
 'C06': 'RawDistancePixel::inside',
 'C07': 'impl Transformable for Grad',
 'C08': 'the winding of dc_edge (fidget-mesh/src/dc.rs)',
 'C09': 'ThreadPool::thread_count',
 'C10': 'the output vector of JitTracingEval::eval',
 'C11': 'the same-period guard of Interval::rem_euclid',
 'C12': 'identity elimination in Context::add',
 'C13': 'unary-chain rewrites in Context::op_unary',
 'C14': 'impl Transformable for f32',
 'C15': 'Bytecode::mem_count',
 'C16': 'impl TryFrom<Vec3> for Axis',
 'C17': 'which positional builders register_shape registers for reducers',
 'C18': 'where the pitch is clamped in View3::rotate',
 'C19': 'the extra-slot tolerance of VarMap::check_tracing_arguments / check_bulk_arguments',
 'C20': 'the zero test of build_or in the x86_64 JIT interval assembler',
}
for pid in (ids or props):
    p = props[pid]
    avoid = ''
    if 'seed2' in root:
        avoid = f"\nAn earlier experiment already used a change in {AVOID[pid]}. Pick a DIFFERENT mechanism in a different function (ideally a different file or clause of the property).\n"
    if 'seed3' in root:
        avoid = (f"\nTwo earlier experiments already used (1) {AVOID[pid]} and (2) {AVOID2[pid]}. Pick a mechanism different from both, in a different function, "
                 "ideally exercising a clause of the property statement or a part of its quantifier that neither of them touched. Prefer a change whose trigger is rare "
                 "(a specific value, count, size, order or history) over one that most inputs expose.\n")
    if 'seed4' in root:
        avoid = (f"\nThree earlier experiments already used (1) {AVOID[pid]}, (2) {AVOID2[pid]} and (3) {AVOID3[pid]}. Pick a mechanism different from all three, in a different function. "
                 "Prefer a change whose trigger depends on SCALE or a BOUNDARY: a count, length, depth or index at or beyond a threshold (for example more than 8, 12, 64, 255, 256 or 65535 of something; "
                 "an image, grid or slice size that is exactly a multiple, or one more than a multiple, of a tile or SIMD width; the largest or smallest allowed value of a parameter), "
                 "or on shared infrastructure that the property only reaches indirectly (LRU, variable map, tape data, operand encoding, caches, workspaces). "
                 "The existing tests must still pass, so the trigger has to lie beyond what they exercise.\n")
    if 'seed5' in root:
        avoid = (f"\nFour earlier experiments already used (1) {AVOID[pid]}, (2) {AVOID2[pid]}, (3) {AVOID3[pid]} and (4) {AVOID4[pid]}. Pick a mechanism different from all four, in a different function, "
                 "and aim at a clause of the property statement, a part of its quantifier, or one of the listed anchor files / mechanisms that none of the four touches. "
                 "Prefer a change that needs a HISTORY or a COMBINATION to manifest rather than a single unusual value: state carried from one call to the next (a cache, a reused buffer, a recycled object, "
                 "a flag that is set in one place and read in another), two cooperating sites that each look fine alone, a particular order of operations or of operands, a particular nesting, "
                 "a particular thread interleaving or cancellation point, or a fast path that is only taken after a slow path has run. "
                 "The existing tests must still pass, so the trigger has to lie beyond what they exercise.\n")
    if 'seed6' in root:
        avoid = (f"\nFive earlier experiments already used (1) {AVOID[pid]}, (2) {AVOID2[pid]}, (3) {AVOID3[pid]}, (4) {AVOID4[pid]} and (5) {AVOID5[pid]}. Pick a mechanism different from all five, in a different function. "
                 "Before editing, list for yourself at least five candidate sites spread over DIFFERENT anchor files / mechanisms of the property and choose the one that is least like the earlier ones and that the existing tests cannot see. "
                 "Prefer a change that looks like a well-meant OPTIMISATION or clean-up: a fast path, a cache, an early exit, a skipped step believed redundant, a reused buffer, a tightened bound, a merged pair of branches, "
                 "a simplified formula - correct for the common case and wrong for a rare one (a particular combination of operand forms, values at a boundary, sizes, orders, nestings or call histories). "
                 "The existing tests must still pass, so the rare case has to lie beyond what they exercise.\n")
    if 'seed7' in root:
        avoid = (f"\nSix earlier experiments already used (1) {AVOID[pid]}, (2) {AVOID2[pid]}, (3) {AVOID3[pid]}, (4) {AVOID4[pid]}, (5) {AVOID5[pid]} and (6) {AVOID6[pid]}. Pick a mechanism different from all six, in a different function. "
                 "The verification suite you are up against generates RANDOM programs, inputs, configurations and call histories and compares the library with reference models, so it finds anything that a few thousand random cases would hit. "
                 "Aim at its blind spot: a change whose trigger is an EXACT COINCIDENCE that random generation is unlikely to produce by chance - two independently chosen values that must be bit-identical or related exactly "
                 "(an operand equal to a particular constant, two constants equal to each other, a size equal to a multiple of another, an index landing exactly on a boundary, a value exactly representable / exactly at a rounding boundary), "
                 "a particular structural coincidence in the expression (the same sub-expression in two particular positions, a particular chain of three specific operations, a particular register assignment), "
                 "or a particular sequence of three or more specific calls. Before editing, list for yourself at least five candidate sites spread over different anchor files / mechanisms and choose the one with the narrowest natural trigger that still plausibly occurs in real use. "
                 "The existing tests must still pass.\n")
    if 'seed8' in root:
        avoid = (f"\nSeven earlier experiments already used (1) {AVOID[pid]}, (2) {AVOID2[pid]}, (3) {AVOID3[pid]}, (4) {AVOID4[pid]}, (5) {AVOID5[pid]}, (6) {AVOID6[pid]} and (7) {AVOID7[pid]}. Pick a mechanism different from all seven, in a different function. "
                 "The verification suite you are up against generates random programs, inputs, configurations and call histories (including special values, exact coincidences and objects with a history) and compares the library with reference models. "
                 "Like every such suite it has to TOLERATE what the property statement itself concedes: read the statement for its stated exceptions and tolerances (NaN need only match NaN, the sign of a zero, a few ulps, 'within rounding distance of zero', 'within floating-point tolerance', 'within the sampling resolution', excluded loci and excluded inputs, 'may fail loudly', conservative NaN results) and for behaviour it leaves open. "
                 "Aim at the EDGE of those concessions: a change whose wrong behaviour looks superficially like something the statement tolerates or excludes but is in fact outside the concession "
                 "(a wrong finite value where only a NaN payload or a zero sign may differ; an error of 8 ulps or of 1e-3 where a few ulps or 1e-6 are conceded; a result that is wrong only next to, not on, an excluded locus; a NaN / conservative result returned where a definite one is required, or the reverse; "
                 "a failure that is loud where it must be silent or silent where it must be loud), so that a checker with sloppy tolerances or over-broad exclusions stays silent. "
                 "Before editing, list for yourself at least five candidate sites spread over different anchor files / mechanisms and choose the one whose effect is closest to a conceded difference while still clearly violating the statement. "
                 "The existing tests must still pass.\n")
    if 'seed9' in root:
        avoid = (f"\nEight earlier experiments already used (1) {AVOID[pid]}, (2) {AVOID2[pid]}, (3) {AVOID3[pid]}, (4) {AVOID4[pid]}, (5) {AVOID5[pid]}, (6) {AVOID6[pid]}, (7) {AVOID7[pid]} and (8) {AVOID8[pid]}. Pick a mechanism different from all eight, in a different function. "
                 "The verification suite you are up against generates random programs, inputs, configurations and call histories (including special values, exact coincidences, objects with a history) and compares the library with independent reference models, bit for bit where the statement allows. "
                 "Its remaining blind spots are most likely on the LESS-TRAVELLED PARTS OF THE PUBLIC SURFACE that the property covers: a sibling of the commonly used entry point (a second constructor or `From` / `TryFrom` impl, a convenience wrapper, a `_with_*` / `ez_*` / `new_*` variant, a method that exists for several element types, an accessor or a field of the result that is rarely read, an enum variant or configuration value that is rarely chosen, a default value, a `Clone` / `Default` / `PartialEq` / `Hash` / `Display` / (de)serialisation impl, a second output of a call such as a flag, a count or a trace), "
                 "or one of two COUPLED OBSERVABLES of which a lazy checker looks at only one (value vs. derivative lanes, value vs. trace, image vs. its dimensions, result vs. the reported count, the returned flag vs. the stored state). "
                 "Break only the sibling or only the second observable, leaving the commonly used path bit-identical. Before editing, list for yourself at least five candidate sites spread over different anchor files / mechanisms and choose the one a generated-input checker is least likely to call or read, while it is still clearly inside the property statement. "
                 "The existing tests must still pass.\n")
    open(f'{root}/prompt_{pid}.txt', 'w').write(f"""You are helping to evaluate a verification suite for the Rust library mkeeter/fidget (implicit-surface math expressions compiled to tapes, evaluated by an interpreter VM or an x86_64 JIT, rendered or meshed). You do NOT see the verification suite. Your job is to write ONE realistic, subtle breaking change to the library.

Your private scratch copy of the repository is the git worktree at {root}/{pid} (work ONLY there; never touch /repo or /verif; do not commit). The machine is offline: always pass --offline to cargo and set CARGO_TARGET_DIR={root}/{pid}/target for every cargo command.

The property your change must break:

  id: {pid}
  title: {p['title']}
  statement: {p['statement']}
  quantified over: {p['quantifier']['text']}
  why the existing tests cannot settle it: {p['why_tests_cant']}
  code anchors: {json.dumps(p['anchors']['files'])}
  mechanisms meant to make it hold: {json.dumps(p['anchors']['mechanism'])}
{avoid}
Requirements for the change:
1. It is a small source edit inside the library crates (fidget-*/src), the kind of slip a maintainer could plausibly make (off-by-one, wrong operand order, missing reset, wrong constant, swapped branch, stale cache key, dropped special case ...). It must compile.
2. It must NOT be exposed by ordinary use at once. It should need something specific to manifest: an unusual input or special value, a particular size/shape/count, a multi-step sequence of operations, a particular interleaving or cancellation point, or two cooperating sites that each look fine alone. Prefer a change whose effect is confined to a narrow part of the input space.
3. The existing tests of the affected crates must still pass with the change: run `cargo test -p <affected crates> --offline` (e.g. -p fidget-core -p fidget-jit; add others if you touch them) and iterate until they pass. (fidget-wgpu tests cannot run here; ignore that crate.)
4. Write a demonstration that FAILS with your change and PASSES on the unmodified code: a single new integration-test file under the most relevant crate's `tests/` directory (e.g. fidget-jit/tests/seeded_demo.rs, using only that crate's existing dependencies/dev-dependencies), runnable with `cargo test -p <crate> --test seeded_demo --offline`. Verify both directions yourself (save the library edit with `git diff > {root}/{pid}.edit.patch`, undo it with `git apply -R`, re-apply with `git apply`; do NOT use `git stash`: the stash is shared between worktrees and other people are working in sibling worktrees).

When done, leave in {root}/{pid}:
- the library edit as uncommitted working-tree changes,
- the demo test file (untracked is fine),
- a file SEEDED.md with: which files/lines you changed and why it breaks the property; what exactly it needs in order to manifest; the exact commands you ran and their outcome (tests pass with the change; demo fails with it and passes without it).
Finally, reply with a short summary (the diff, the demo path, what it needs to manifest). Keep the build output of your worktree (the target directory) - it will be cleaned up by the caller.
""")
print('prompts written to', root)
