#!/bin/bash
# Background sweep for `vp run --with-repo`: points the snapshot's harness at the
# snapshot of /repo (so that patches applied to /repo meanwhile do not leak in),
# then runs tools/run_all.sh.   usage: bg_sweep.sh <tier> "<seeds>" [ids...]
cd "$(dirname "$0")/.."
if [ -n "${VP_RUN_REPO:-}" ]; then
  sed -i "s#\"/repo/#\"$VP_RUN_REPO/#" harness/Cargo.toml
  [ -f harness/fuzz/Cargo.toml ] && sed -i "s#\"/repo/#\"$VP_RUN_REPO/#" harness/fuzz/Cargo.toml
fi
exec tools/run_all.sh "$@"
