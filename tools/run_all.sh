#!/bin/bash
# Runs every check at a tier with a list of seeds; prints one line per run.
# usage: tools/run_all.sh <quick|thorough> "<seeds>" [ids...]
cd "$(dirname "$0")/.."
TIER=${1:-quick}; SEEDS=${2:-1}; shift 2
IDS=${@:-C01 C02 C03 C04 C05 C06 C07 C08 C09 C10 C11 C12 C13 C14 C15 C16 C17 C18 C19 C20}
for s in $SEEDS; do
  for id in $IDS; do
    out=$(VERIF_SEED=$s ./check $id $TIER 2>&1); rc=$?
    echo "seed=$s $id rc=$rc $(echo "$out" | grep -E "^$id $TIER" )"
    if [ $rc -ne 0 ]; then echo "$out" | grep -v "^proptest: Abort" | grep -v KNOWN-F | head -12 | cut -c1-500; fi
  done
done
