#!/bin/bash
# Coverage-guided stage of a thorough check: libFuzzer drives the property's
# own proptest strategy (bytes = random stream) with the property's own oracle.
# usage: tools/fuzz_stage.sh <ID> [seconds-per-job] [jobs]
# exit 0: nothing found (or stage unavailable - recorded in the evidence);
# exit 1: a violation that replays in the ordinary build (VIOLATION line printed);
# exit 2: crash / timeout / OOM artifact that does not replay (inconclusive)
set -u
ID=$1; SECS=${2:-120}; JOBS=${3:-16}
HERE=$(cd "$(dirname "$0")/.." && pwd)
cd "$HERE/harness" || exit 2
export CARGO_NET_OFFLINE=true
export RUSTFLAGS="--cfg fidget_verif"
FV="$HERE/harness/target/verif/fv"
WORK="$HERE/harness/fuzz/work/$ID"
rm -rf "$WORK"; mkdir -p "$WORK/corpus" "$WORK/artifacts"
if ! cargo +nightly fuzz build -O fz > "$WORK/build.txt" 2>&1; then
  echo "$ID coverage-guided stage: unavailable (cargo +nightly fuzz build failed; see $WORK/build.txt)"
  "$FV" fuzz-merge "$ID" "$WORK" "$SECS" "$JOBS" "unavailable: fuzz build failed" > /dev/null
  exit 0
fi
BIN="$HERE/harness/target/x86_64-unknown-linux-gnu/release/fz"
[ -x "$BIN" ] || BIN=$(find "$HERE/harness" -path '*x86_64-unknown-linux-gnu/release/fz' -type f | head -1)
SEED=${VERIF_SEED:-1}; [ "$SEED" = 0 ] && SEED=1
( cd "$WORK" && FV_VERIF_DIR="$HERE" FV_FUZZ_PROP="$ID" FV_FUZZ_OUT="$WORK" \
    ASAN_OPTIONS=detect_leaks=0:allocator_may_return_null=1 \
    "$BIN" corpus -artifact_prefix=artifacts/ -max_total_time="$SECS" -seed="$SEED" \
      -len_control=0 -max_len=4096 -timeout=120 -rss_limit_mb=6000 -print_final_stats=1 \
      -jobs="$JOBS" -workers="$JOBS" > driver.txt 2>&1 )
rc=0; status="completed"
# violations found by the oracle inside the target
for rp in $(grep -h "^FUZZ-VIOLATION replay=" "$WORK"/*.log 2>/dev/null | sed 's/^FUZZ-VIOLATION replay=//' | sort -u); do
  out=$("$FV" replay "$rp" 2>&1)
  if echo "$out" | grep -q "^VIOLATION"; then
    echo "$out"; rc=1; status="violation"
  else
    echo "$ID coverage-guided stage: failure under the sanitizer build did not replay in the ordinary build: $rp"
    [ $rc -eq 0 ] && rc=2 && status="inconclusive: non-replaying failure"
  fi
done
# crashes libFuzzer itself caught (signals, sanitizer reports), timeouts, OOMs
for a in "$WORK"/artifacts/*; do
  [ -f "$a" ] || continue
  case "$(basename "$a")" in
    crash-*)
      grep -q "FUZZ-VIOLATION" "$WORK"/*.log 2>/dev/null && [ $rc -eq 1 ] && continue
      cj="$WORK/$(basename "$a").case.json"
      if "$FV" fuzz-decode "$ID" "$a" > "$cj.tmp" 2>/dev/null; then
        mkdir -p "$HERE/replays"
        rp="$HERE/replays/$ID-fuzz-$(basename "$a" | cut -c7-22).json"
        python3 - "$ID" "$cj.tmp" "$rp" <<'PY'
import json,sys
json.dump({"property":sys.argv[1],"kind":"violation","sig":"crash-under-fuzzer","msg":"libFuzzer crash artifact decoded to this case","case":json.load(open(sys.argv[2]))},open(sys.argv[3],"w"),indent=1)
PY
        out=$("$FV" replay "$rp" 2>&1)
        if echo "$out" | grep -q "^VIOLATION"; then echo "$out"; rc=1; status="violation"
        else echo "$ID coverage-guided stage: crash artifact $a does not replay in the ordinary build (case: $rp)"; [ $rc -eq 0 ] && rc=2 && status="inconclusive: non-replaying crash"; fi
      fi ;;
    timeout-*|oom-*|slow-unit-*)
      echo "$ID coverage-guided stage: $(basename "$a") (resource limit, not a violation)"
      [ $rc -eq 0 ] && status="completed with resource-limit artifacts" ;;
  esac
done
"$FV" fuzz-merge "$ID" "$WORK" "$SECS" "$JOBS" "$status"
exit $rc
