//! C09 — parallel execution and cancellation are unobservable in results
use crate::build::*;
use crate::csg::{self, Csg};
use crate::engine::*;
use crate::gens;
use crate::p06::{ShapeSpec, tile_list_max};
use crate::p07::{world_to_model, xform_strategy};
use crate::refsem::same;
use crate::spec::*;
use crate::{ensure, fail};
use fidget_core::context::{Context, Node};
use fidget_core::eval::{BulkEvaluator, Function, MathFunction, TracingEvaluator};
use fidget_core::render::{
    CancelToken, ImageSize, RenderHints, ThreadPool, TileSizes, VoxelSize, verif_hook,
};
use fidget_core::shape::Shape;
use fidget_core::types::{Grad, Interval};
use fidget_core::vm::VmFunction;
use fidget_jit::JitFunction;
use fidget_mesh::{Octree, Settings};
use fidget_raster::pixel::DistancePixel;
use proptest::collection::vec;
use proptest::prelude::*;
use serde::{Deserialize, Serialize};
use std::collections::HashSet;
use std::sync::atomic::{AtomicBool, AtomicUsize, Ordering};
use std::sync::{Arc, Mutex};

#[derive(Clone, Debug, Serialize, Deserialize)]
pub enum Work {
    Render2 {
        shape: ShapeSpec,
        w: u32,
        h: u32,
        tiles: Vec<usize>,
    },
    Render3 {
        shape: ShapeSpec,
        size: (u32, u32, u32),
        tiles: Vec<usize>,
        xform: Option<([Fl; 3], u32, Fl, [Fl; 3])>,
    },
    Mesh {
        shape: Csg,
        depth: u8,
    },
}

#[derive(Clone, Debug, Serialize, Deserialize)]
pub enum Cancel {
    Never,
    BeforeStart,
    /// at the k-th poll, k = 1 + frac/1000 * (polls of the sequential run)
    AtPoll(u16),
    /// from another thread after this many microseconds
    Async(u32),
}

#[derive(Clone, Debug, Serialize, Deserialize)]
pub enum Case {
    Run {
        work: Work,
        jit: bool,
        /// pool threads (1..=16)
        pool: u8,
        /// 0 = no perturbation, 1 = yields, 2 = yields and 50-500 us delays
        perturb: u8,
        perturb_seed: u32,
        cancel: Cancel,
        /// cancellation is requested 1 + this many times (through clones of
        /// the token): a token that has been set stays set
        #[serde(default)]
        extra_cancels: u8,
    },
    Share {
        dag: DagSpec,
        outs: Vec<u16>,
        /// per thread, a list of points
        inputs: Vec<Vec<Vec<Fl>>>,
        jit: bool,
    },
}

pub struct P;

/// A comparable rendering of a result
#[derive(PartialEq, Eq, Debug, Clone)]
enum Out {
    Image2(Vec<u64>),
    Image3(Vec<[u32; 4]>),
    Mesh(Vec<[[u32; 3]; 3]>),
}

struct HookState {
    polls: AtomicUsize,
    threads: Mutex<HashSet<std::thread::ThreadId>>,
    fired: AtomicBool,
    cancel_at: usize, // 0 = never
    extra_cancels: u8,
    perturb: u8,
    seed: u32,
}

fn install(state: Arc<HookState>) {
    verif_hook::set(Some(Arc::new(move |t: &CancelToken| {
        let k = state.polls.fetch_add(1, Ordering::SeqCst) + 1;
        state
            .threads
            .lock()
            .unwrap()
            .insert(std::thread::current().id());
        if state.perturb > 0 {
            let r = splitmix(((state.seed as u64) << 32) ^ k as u64);
            match r % 4 {
                0 => {}
                1 | 2 => std::thread::yield_now(),
                _ => {
                    if state.perturb > 1 {
                        std::thread::sleep(std::time::Duration::from_micros(
                            50 + (r >> 8) % 450,
                        ));
                    } else {
                        std::thread::yield_now();
                    }
                }
            }
        }
        if state.cancel_at != 0 && k == state.cancel_at {
            state.fired.store(true, Ordering::SeqCst);
            t.cancel();
            for _ in 0..state.extra_cancels {
                t.clone().cancel();
            }
        }
    })));
}

fn run_work<F: MathFunction + RenderHints + Clone>(
    work: &Work,
    pool: Option<&ThreadPool>,
    cancel: CancelToken,
) -> Result<Option<Out>, Fail> {
    match work {
        Work::Render2 { shape, w, h, tiles } => {
            let (ctx, root) = shape.build();
            let s = Shape::<F>::new(&ctx, root).unwrap();
            let cfg = fidget_raster::pixel::RenderConfig::from_size(ImageSize::new(*w, *h));
            let ec = fidget_raster::pixel::EvalConfig {
                tile_sizes: Some(TileSizes::new(tiles).unwrap()),
                threads: pool,
                cancel,
            };
            let b = s.try_into().map_err(|_| Fail::new("harness", "vars"))?;
            let Some(img) = fidget_raster::pixel::render::<F>(b, &cfg, &ec) else {
                return Ok(None);
            };
            // post-processing runs under the same pool (or none): every
            // deterministic effect, plus a direct index oracle for
            // Image::apply_effect (pixel (x, y) is stored at y * width + x)
            let mut post: Vec<u64> = vec![];
            {
                use fidget_raster::effects;
                let mut t = fidget_raster::Image::<f32>::new(ImageSize::new(*w, *h));
                let wd = *w as usize;
                t.apply_effect(|x, y| (x + y * wd) as f32, pool);
                for (i, v) in t.as_slice().iter().enumerate() {
                    if *v != i as f32 {
                        return Err(Fail::new(
                            "apply-effect-index",
                            format!(
                                "Image::apply_effect on a {w}x{h} image with {}: element {i} holds f(x, y) of pixel index {v}",
                                if pool.is_some() { "a pool" } else { "no pool" }
                            ),
                        ));
                    }
                }
                let px = |v: &[u8; 4]| u32::from_le_bytes(*v) as u64;
                post.extend(effects::to_rgba_bitmap(img.clone(), false, pool).iter().map(px));
                post.extend(effects::to_rgba_bitmap(img.clone(), true, pool).iter().map(px));
                post.extend(effects::to_debug_bitmap(img.clone(), pool).iter().map(px));
                post.extend(effects::to_rgba_distance(img.clone(), pool).iter().map(px));
            }
            Ok(Some(img).map(|img| {
                Out::Image2(
                    img.iter()
                        .map(|p| match p.unpack() {
                            DistancePixel::Value(v) => {
                                if v.is_nan() {
                                    1u64 << 40
                                } else {
                                    v.to_bits() as u64
                                }
                            }
                            DistancePixel::Fill { depth, inside } => {
                                (1u64 << 41) | ((depth as u64) << 1) | inside as u64
                            }
                        })
                        .chain(post.iter().copied())
                        .collect(),
                )
            }))
        }
        Work::Render3 {
            shape,
            size,
            tiles,
            xform,
        } => {
            let (ctx, root) = shape.build();
            let s = Shape::<F>::new(&ctx, root).unwrap();
            let cfg = fidget_raster::voxel::RenderConfig {
                image_size: VoxelSize::new(size.0, size.1, size.2),
                world_to_model: world_to_model(xform),
            };
            let ec = fidget_raster::voxel::EvalConfig {
                tile_sizes: Some(TileSizes::new(tiles).unwrap()),
                threads: pool,
                cancel,
            };
            let b = s.try_into().map_err(|_| Fail::new("harness", "vars"))?;
            Ok(fidget_raster::voxel::render::<F>(b, &cfg, &ec).map(|img| {
                let nb = |v: f32| if v.is_nan() { 0x7fc00000 } else { v.to_bits() };
                // deterministic post-processing under the same pool (or none)
                let den = fidget_raster::effects::denoise_normals(&img, pool);
                let shaded = fidget_raster::effects::apply_shading(&img, false, pool);
                Out::Image3(
                    img.iter()
                        .chain(den.iter())
                        .map(|p| [p.depth, nb(p.normal[0]), nb(p.normal[1]), nb(p.normal[2])])
                        .chain(shaded.iter().map(|c| [c[0] as u32, c[1] as u32, c[2] as u32, 0]))
                        .collect(),
                )
            }))
        }
        Work::Mesh { shape, depth } => {
            let mut ctx = Context::new();
            let root = shape.build(&mut ctx);
            let s = Shape::<F>::new(&ctx, root).unwrap();
            let settings = Settings {
                depth: *depth,
                world_to_model: nalgebra::Matrix4::identity(),
                threads: pool,
                cancel,
            };
            let b = s.try_into().map_err(|_| Fail::new("harness", "vars"))?;
            Ok(Octree::build::<F>(&b, &settings).map(|o| {
                let m = o.walk_dual();
                let mut tris: Vec<[[u32; 3]; 3]> = m
                    .triangles
                    .iter()
                    .map(|t| {
                        let v = |i: usize| {
                            let p = m.vertices[i];
                            [p.x.to_bits(), p.y.to_bits(), p.z.to_bits()]
                        };
                        let mut t = [v(t.x), v(t.y), v(t.z)];
                        // canonical rotation (cyclic order preserved)
                        let k = (0..3).min_by_key(|i| t[*i]).unwrap();
                        t.rotate_left(k);
                        t
                    })
                    .collect();
                tris.sort();
                Out::Mesh(tris)
            }))
        }
    }
}

fn describe(a: &Out, b: &Out) -> String {
    match (a, b) {
        (Out::Image2(x), Out::Image2(y)) => {
            let n = x.iter().zip(y).filter(|(p, q)| p != q).count();
            format!("{n} of {} pixels differ", x.len())
        }
        (Out::Image3(x), Out::Image3(y)) => {
            let n = x.iter().zip(y).filter(|(p, q)| p != q).count();
            format!("{n} of {} pixels differ", x.len())
        }
        (Out::Mesh(x), Out::Mesh(y)) => {
            let sx: HashSet<_> = x.iter().collect();
            let sy: HashSet<_> = y.iter().collect();
            format!(
                "{} vs {} triangles; {} only in the sequential mesh, {} only in the pooled mesh",
                x.len(),
                y.len(),
                sx.difference(&sy).count(),
                sy.difference(&sx).count()
            )
        }
        _ => "different kinds".into(),
    }
}

fn run_case<F: MathFunction + RenderHints + Clone>(
    work: &Work,
    pool_n: u8,
    perturb: u8,
    perturb_seed: u32,
    cancel: &Cancel,
    extra_cancels: u8,
    case: &Case,
    cx: &mut Cx,
) -> CheckResult {
    // 1. sequential reference (no pool, counting hook)
    let st0 = Arc::new(HookState {
        polls: AtomicUsize::new(0),
        threads: Mutex::new(HashSet::new()),
        fired: AtomicBool::new(false),
        cancel_at: 0,
        extra_cancels: 0,
        perturb: 0,
        seed: 0,
    });
    install(st0.clone());
    let reference = run_work::<F>(work, None, CancelToken::new());
    verif_hook::set(None);
    let reference = reference?
        .ok_or_else(|| Fail::new("none-without-cancel", "sequential run returned None without cancellation"))?;
    let polls0 = st0.polls.load(Ordering::SeqCst);

    // 2. pooled, perturbed, possibly cancelled run
    // pool_n == 0: the no-pool path itself is perturbed / cancelled
    let pool = (pool_n > 0).then(|| {
        ThreadPool::Custom(
            rayon::ThreadPoolBuilder::new()
                .num_threads(pool_n as usize)
                .build()
                .unwrap(),
        )
    });
    let token = CancelToken::new();
    let cancel_at = match cancel {
        Cancel::AtPoll(fr) => 1 + (*fr as usize * polls0.max(1)) / 1000,
        _ => 0,
    };
    let st = Arc::new(HookState {
        polls: AtomicUsize::new(0),
        threads: Mutex::new(HashSet::new()),
        fired: AtomicBool::new(false),
        cancel_at,
        extra_cancels,
        perturb,
        seed: perturb_seed,
    });
    install(st.clone());
    // the handle the workload polls: a clone, or (for odd perturbation seeds)
    // a clone that went through the raw-pointer hand-over (into_raw /
    // from_raw, how a token is passed to a web worker) -- made BEFORE any
    // cancellation, which is then requested through the original handle
    let run_token = if perturb_seed % 2 == 1 {
        cx.ev.count("run_token_through_raw_pointer");
        // SAFETY: the pointer comes from into_raw and is reclaimed once
        unsafe { CancelToken::from_raw(token.clone().into_raw()) }
    } else {
        token.clone()
    };
    if matches!(cancel, Cancel::BeforeStart) {
        token.cancel();
        for _ in 0..extra_cancels {
            token.clone().cancel();
        }
        ensure!(
            token.is_cancelled(),
            "token-not-set-after-cancel",
            "is_cancelled() is false after {} cancel() call(s)",
            1 + extra_cancels
        );
    }
    let killer = if let Cancel::Async(us) = cancel {
        let t = token.clone();
        let us = *us as u64;
        Some(std::thread::spawn(move || {
            std::thread::sleep(std::time::Duration::from_micros(us));
            t.cancel();
            for _ in 0..extra_cancels {
                t.clone().cancel();
            }
        }))
    } else {
        None
    };
    let got = run_work::<F>(work, pool.as_ref(), run_token);
    verif_hook::set(None);
    if let Some(k) = killer {
        let _ = k.join();
    }
    let got = got?;
    let polls = st.polls.load(Ordering::SeqCst);
    let nthreads = st.threads.lock().unwrap().len();
    let fired = st.fired.load(Ordering::SeqCst);
    cx.ev.add("polls_observed", polls as u64);
    cx.ev.max("max_threads_seen_polling", nthreads as u64);

    let mut nontrivial = polls >= 2 && nthreads >= 2;
    match cancel {
        Cancel::Never => {
            cx.ev.count("cancel_never");
            let Some(g) = got else {
                fail!(
                    "none-without-cancel",
                    "pool of {pool_n} threads: result is None although the token was never set"
                );
            };
            if g != reference {
                fail!(
                    "pool-changes-result",
                    "pool of {pool_n} threads (perturbation {perturb}): {}",
                    describe(&reference, &g)
                );
            }
        }
        Cancel::BeforeStart => {
            cx.ev.count("cancel_before_start");
            cx.ev.count(&format!("cancel_requests_{}", 1 + extra_cancels));
            ensure!(
                got.is_none(),
                "result-despite-cancel",
                "token set before the call, but a result was returned"
            );
        }
        Cancel::AtPoll(_) => {
            if fired {
                cx.ev.count("cancel_at_poll_fired");
                cx.ev.count(&format!("cancel_requests_{}", 1 + extra_cancels));
                ensure!(
                    got.is_none(),
                    "partial-result-after-cancel",
                    "token set during poll {cancel_at} of {polls}, but a result was returned"
                );
                if cancel_at > 1 && cancel_at < polls {
                    nontrivial = true;
                }
            } else {
                cx.ev.count("cancel_at_poll_not_reached");
                match got {
                    None => fail!(
                        "none-without-cancel",
                        "cancel point {cancel_at} was never reached ({polls} polls) but the result is None"
                    ),
                    Some(g) => ensure!(
                        g == reference,
                        "pool-changes-result",
                        "{}",
                        describe(&reference, &g)
                    ),
                }
            }
        }
        Cancel::Async(_) => {
            cx.ev.count("cancel_async");
            match got {
                None => cx.ev.count("cancel_async_returned_none"),
                Some(g) => {
                    cx.ev.count("cancel_async_returned_result");
                    ensure!(
                        g == reference,
                        "partial-result-after-cancel",
                        "asynchronous cancel: a result was returned that differs from the complete one: {}",
                        describe(&reference, &g)
                    );
                }
            }
        }
    }
    if nontrivial {
        cx.ev.nontrivial(case);
    }
    Ok(())
}

/// One tape, many threads: every thread must get what it would get alone
fn share<F: MathFunction + Function<Trace = fidget_core::vm::VmTrace>>(
    dag: &DagSpec,
    outs: &[u16],
    inputs: &[Vec<Vec<Fl>>],
    case: &Case,
    cx: &mut Cx,
) -> CheckResult {
    let b = build_dag(dag);
    let roots: Vec<Node> = crate::p01::roots_of(&b, &Some(outs.to_vec()));
    let f = F::new(&b.ctx, &roots).unwrap();
    let vm = f.vars();
    let mut order = vec![0usize; vm.len()];
    for (i, v) in b.vars.iter().enumerate() {
        if let Some(s) = vm.get(v) {
            order[s] = i;
        }
    }
    let tp = f.point_tape(Default::default());
    let ti = f.interval_tape(Default::default());
    let tf = f.float_slice_tape(Default::default());
    let tg = f.grad_slice_tape(Default::default());
    // everything as bit patterns
    let eval_all = |pts: &Vec<Vec<Fl>>| -> Vec<u32> {
        let mut out = vec![];
        let mut pe = F::new_point_eval();
        let mut ie = F::new_interval_eval();
        let mut fe = F::new_float_slice_eval();
        let mut ge = F::new_grad_slice_eval();
        let nb = |v: f32| if v.is_nan() { 0x7fc00000 } else { v.to_bits() };
        for p in pts {
            let input: Vec<f32> = order.iter().map(|o| p[*o].0).collect();
            let (o, t) = pe.eval(&tp, &input).unwrap();
            out.extend(o.iter().map(|v| nb(*v)));
            if let Some(t) = t {
                out.extend(t.as_slice().iter().map(|c| *c as u32));
            }
            let iv: Vec<Interval> = input
                .iter()
                .map(|v| {
                    if v.is_nan() {
                        Interval::from(*v)
                    } else {
                        Interval::new(v - 0.25, v + 0.25)
                    }
                })
                .collect();
            if iv.iter().all(|i| !i.has_nan() && i.lower().is_finite()) {
                let (o, t) = ie.eval(&ti, &iv).unwrap();
                out.extend(o.iter().flat_map(|v| [nb(v.lower()), nb(v.upper())]));
                if let Some(t) = t {
                    out.extend(t.as_slice().iter().map(|c| *c as u32));
                }
            }
        }
        let cols: Vec<Vec<f32>> = order
            .iter()
            .map(|o| pts.iter().map(|p| p[*o].0).collect())
            .collect();
        let o = fe.eval(&tf, &cols).unwrap();
        for k in 0..o.len() {
            if !cols.is_empty() {
                out.extend(o[k].iter().map(|v| nb(*v)));
            }
        }
        let gcols: Vec<Vec<Grad>> = cols
            .iter()
            .enumerate()
            .map(|(i, c)| {
                c.iter()
                    .map(|v| Grad::new(*v, (i == 0) as u8 as f32, (i == 1) as u8 as f32, 0.5))
                    .collect()
            })
            .collect();
        let o = ge.eval(&tg, &gcols).unwrap();
        for k in 0..o.len() {
            if !gcols.is_empty() {
                out.extend(o[k].iter().flat_map(|g| [nb(g.v), nb(g.dx), nb(g.dy), nb(g.dz)]));
            }
        }
        out
    };
    let alone: Vec<Vec<u32>> = inputs.iter().map(&eval_all).collect();
    let barrier = std::sync::Barrier::new(inputs.len());
    let together: Vec<Vec<u32>> = std::thread::scope(|s| {
        let hs: Vec<_> = inputs
            .iter()
            .map(|pts| {
                let barrier = &barrier;
                let eval_all = &eval_all;
                s.spawn(move || {
                    barrier.wait();
                    let mut last = vec![];
                    for _ in 0..4 {
                        last = eval_all(pts);
                    }
                    last
                })
            })
            .collect();
        hs.into_iter().map(|h| h.join().unwrap()).collect()
    });
    for (t, (a, b)) in alone.iter().zip(&together).enumerate() {
        cx.ev.count("shared_tape_thread_comparisons");
        if a != b {
            let k = a.iter().zip(b).position(|(x, y)| x != y);
            fail!(
                "shared-tape-interference",
                "thread {t} of {}: result word {k:?} differs from the single-threaded run ({} vs {} words)",
                inputs.len(),
                a.len(),
                b.len()
            );
        }
    }
    if inputs.len() >= 2 {
        cx.ev.nontrivial(case);
    }
    let _ = same;
    Ok(())
}

impl Prop for P {
    const ID: &'static str = "C09";
    type Case = Case;

    fn strategy(tier: Tier) -> BoxedStrategy<Case> {
        let shape2 = || {
            prop_oneof![
                4 => csg::csg(3, 1.0, 0.05, 0.8, true).prop_map(ShapeSpec::Csg),
                1 => (0u8..3).prop_map(ShapeSpec::Model),
            ]
        };
        let small_tiles = || {
            prop_oneof![
                3 => tile_list_max(16),
                1 => tile_list_max(64),
            ]
        };
        let work = prop_oneof![
            3 => (shape2(), 1u32..=80, 1u32..=80, small_tiles())
                .prop_map(|(shape, w, h, tiles)| Work::Render2 { shape, w, h, tiles }),
            3 => (shape2(), (1u32..=24, 1u32..=24, 1u32..=24), small_tiles(), xform_strategy())
                .prop_map(|(shape, size, tiles, xform)| Work::Render3 { shape, size, tiles, xform }),
            3 => (csg::csg(3, 0.4, 0.2, 0.5, false), 0u8..=tier.pick(4, 5))
                .prop_map(|(shape, depth)| Work::Mesh { shape, depth }),
        ];
        let cancel = prop_oneof![
            4 => Just(Cancel::Never),
            1 => Just(Cancel::BeforeStart),
            3 => (0u16..=1100).prop_map(Cancel::AtPoll),
            2 => (0u32..3000).prop_map(Cancel::Async),
        ];
        let run = (work, any::<bool>(), prop_oneof![1 => Just(0u8), 6 => 1u8..=16], 0u8..=2, any::<u32>(), cancel, prop_oneof![3 => Just(0u8), 2 => Just(1u8), 1 => 2u8..=4]).prop_map(
            |(work, jit, pool, perturb, perturb_seed, cancel, extra_cancels)| Case::Run {
                work,
                jit,
                pool,
                perturb,
                perturb_seed,
                cancel,
                extra_cancels,
            },
        );
        let mut p = gens::DagParams::all(tier.pick(40, 100));
        p.max_vars = 4;
        let share = (
            gens::dag(p),
            vec(any::<u16>(), 1..=4),
            vec(gens::points(1..=12, gens::fl_any()), 2..=16),
            any::<bool>(),
        )
            .prop_map(|(dag, outs, inputs, jit)| Case::Share {
                dag,
                outs,
                inputs,
                jit,
            });
        prop_oneof![5 => run, 1 => share].boxed()
    }

    fn check(case: &Case, cx: &mut Cx) -> CheckResult {
        match case {
            Case::Run {
                work,
                jit,
                pool,
                perturb,
                perturb_seed,
                cancel,
                extra_cancels,
            } => {
                cx.ev.count(match work {
                    Work::Render2 { .. } => "work_render2d",
                    Work::Render3 { .. } => "work_render3d",
                    Work::Mesh { .. } => "work_mesh",
                });
                cx.ev.count(&format!("pool_{pool}"));
                if *jit {
                    run_case::<JitFunction>(work, *pool, *perturb, *perturb_seed, cancel, *extra_cancels, case, cx)
                } else {
                    run_case::<VmFunction>(work, *pool, *perturb, *perturb_seed, cancel, *extra_cancels, case, cx)
                }
            }
            Case::Share {
                dag,
                outs,
                inputs,
                jit,
            } => {
                cx.ev.count("work_shared_tape");
                if *jit {
                    share::<JitFunction>(dag, outs, inputs, case, cx)
                } else {
                    share::<VmFunction>(dag, outs, inputs, case, cx)
                }
            }
        }
    }

    fn plan(tier: Tier) -> Plan {
        match tier {
            Tier::Quick => Plan {
                workers: 8,
                cases_per_worker: 1500,
                timeout_s: 1800,
                max_shrink_iters: 100,
            },
            Tier::Thorough => Plan {
                workers: 8,
                cases_per_worker: 50000,
                timeout_s: 14400,
                max_shrink_iters: 100,
            },
        }
    }

    fn rule() -> &'static str {
        "generated workloads (2D render, 3D render with small tile lists so that many root tiles exist, or an octree mesh \
         build) x backend x {no pool, a custom rayon pool of 1..=16 threads} x a seeded perturbation plan executed at every cancellation \
         poll through the cfg(fidget_verif) hook (yield / 50-500 us delay) x a cancel plan {never, before start, exactly at \
         poll k (token set by the polling thread itself, deterministic), from another thread after 0-3 ms}, each request made 1-5 times through clones of the token (a token that has been set must read as set). Oracle: the \
         sequential no-pool result is the reference; never cancelled => Some and identical (images bit-for-bit, followed by the \
         images of every deterministic post-processing effect run under the same pool or none — to_rgba_bitmap, to_debug_bitmap, \
         to_rgba_distance, denoise_normals, apply_shading without SSAO — and Image::apply_effect checked against its definition \
         pixel (x, y) = f(x, y) at index y*width + x; meshes as sorted multisets of triangles over vertex positions with cyclic order preserved); cancelled before start or at a \
         poll that was reached => None; asynchronous cancel => None or the complete identical result. Plus: one tape \
         evaluated by 2-16 threads released by a barrier (own evaluators, own inputs, all four evaluator kinds) must give \
         each thread exactly its single-threaded results. Non-trivial = polls were observed on >= 2 distinct threads, or the \
         cancel landed strictly between the first and last poll, or >= 2 threads shared a tape."
    }

    fn assumptions() -> Vec<&'static str> {
        vec![
            "schedules are sampled (seeded perturbation), not enumerated",
            "the hook observes and perturbs at cancellation polls only (start of every raster tile task and every octree cell)",
        ]
    }
}
