//! C03 — interval evaluation encloses every point result in the region
use crate::build::*;
use crate::engine::*;
use crate::gens;
use crate::refsem::ulps;
use crate::spec::*;
use crate::{ensure, fail};
use fidget_core::context::{BinaryOpcode, Node, Op, UnaryOpcode};
use fidget_core::eval::{Function, MathFunction, TracingEvaluator};
use fidget_core::shape::Transformable;
use fidget_core::types::Interval;
use fidget_core::vm::VmFunction;
use fidget_jit::JitFunction;
use nalgebra::Matrix4;
use proptest::collection::vec;
use proptest::prelude::*;
use serde::{Deserialize, Serialize};
use std::collections::HashMap;

#[derive(Clone, Debug, Serialize, Deserialize)]
pub enum Case {
    Enclose {
        dag: DagSpec,
        /// (lower, upper) per variable (8 entries)
        boxes: Vec<(Fl, Fl)>,
        /// sample positions inside the box: one fraction in 0..=1000 per variable
        samples: Vec<Vec<u16>>,
    },
    Transform {
        mat: Vec<Fl>,
        boxes: Vec<(Fl, Fl)>,
        samples: Vec<Vec<u16>>,
    },
}

pub struct P;

fn pi_multiple() -> BoxedStrategy<f32> {
    (-8i32..=8, -3i32..=3)
        .prop_map(|(k, e)| {
            let c = k as f32 * std::f32::consts::FRAC_PI_2;
            // step by a few ulps around the quadrant boundary
            let mut v = c;
            for _ in 0..e.abs() {
                v = if e > 0 { next_up(v) } else { next_down(v) };
            }
            v
        })
        .boxed()
}

fn next_up(v: f32) -> f32 {
    if v == 0.0 {
        return f32::from_bits(1);
    }
    let b = v.to_bits();
    f32::from_bits(if v > 0.0 { b + 1 } else { b - 1 })
}
fn next_down(v: f32) -> f32 {
    -next_up(-v)
}

/// One interval: degenerate, tiny, unit-ish, wide, straddling zero, around
/// quadrant boundaries
pub fn interval_strategy(finite_max: f32) -> BoxedStrategy<(Fl, Fl)> {
    let centre = prop_oneof![
        4 => gens::fl_uniform(-4.0, 4.0).prop_map(|f| f.0),
        2 => gens::fl_grid().prop_map(|f| f.0),
        2 => pi_multiple(),
        1 => gens::fl_log().prop_map(|f| f.0),
        1 => Just(0.0f32),
    ];
    let width = prop_oneof![
        2 => Just(0.0f32),
        2 => (1u32..=1000).prop_map(|i| i as f32 * 1e-6),
        3 => (1u32..=1000).prop_map(|i| i as f32 * 1e-3),
        3 => (1u32..=1000).prop_map(|i| i as f32 * 1e-2),
        1 => (1u32..=1000).prop_map(|i| i as f32),
        1 => gens::fl_log().prop_map(|f| f.0.abs()),
    ];
    // narrow-to-one-period boxes at large magnitudes: the periodic functions
    // must place every bound in the right quadrant (finding F20)
    let large_angle = (20u32..=78, any::<bool>(), 0u32..=7000, 0u32..=1000).prop_map(move |(e, neg, w, frac)| {
        let mag = 10f32.powf(e as f32 / 10.0) * (1.0 + frac as f32 / 1000.0);
        let c = if neg { -mag } else { mag };
        let half = w as f32 / 2000.0;
        let (lo, hi) = (c - half, c + half);
        (Fl(lo.clamp(-finite_max, finite_max)), Fl(hi.clamp(-finite_max, finite_max)))
    });
    // placement: around the centre, straddling zero, or touching zero from
    // either side (a bound that is exactly 0)
    let general = (centre, width, prop_oneof![5 => Just(0u8), 5 => Just(1u8), 1 => Just(2u8), 1 => Just(3u8)])
        .prop_map(move |(c, w, placement)| {
            let (mut lo, mut hi) = match placement {
                1 => (-w, w * 0.7),
                2 => (0.0, w),
                3 => (-w, 0.0),
                _ => (c - w, c + w),
            };
            if !(lo <= hi) {
                std::mem::swap(&mut lo, &mut hi);
            }
            let cl = |v: f32| {
                if v.is_nan() {
                    0.0
                } else {
                    v.clamp(-finite_max, finite_max)
                }
            };
            (Fl(cl(lo)), Fl(cl(hi)))
        });
    // both bounds straight from the special-value pool (finite ones), sorted:
    // rounding boundaries, powers of two, extremes
    let special = (gens::fl_special(), gens::fl_special(), 0u32..=3).prop_map(move |(a, b, widen)| {
        let f = |v: f32| if v.is_finite() { v.clamp(-finite_max, finite_max) } else { 0.0 };
        let (a, b) = (f(a.0), f(b.0));
        let (lo, mut hi) = (a.min(b), a.max(b));
        // sometimes only one special bound: [s, s + 1/4]
        if widen == 0 {
            hi = (lo + 0.25).min(finite_max);
        }
        (Fl(lo), Fl(hi.max(lo)))
    });
    // widths within a few ulps of a multiple of pi/2: the periodic functions
    // decide "contains a pole / an extremum" right at these widths (finding F23)
    let period_width = (-8000i32..=8000, 1u32..=4, -3i32..=3).prop_map(move |(lo, m, nudge)| {
        let lo = lo as f32 / 1000.0;
        let mut hi = lo + m as f32 * std::f32::consts::FRAC_PI_2;
        for _ in 0..nudge.abs() {
            hi = if nudge > 0 { next_up(hi) } else { next_down(hi) };
        }
        (Fl(lo), Fl(hi.max(lo)))
    });
    prop_oneof![18 => general, 2 => large_angle, 1 => special, 1 => period_width].boxed()
}

pub fn sample_in(lo: f32, hi: f32, t: u16) -> f32 {
    let t = (t.min(1000)) as f32 / 1000.0;
    let v = match t {
        0.0 => lo,
        1.0 => hi,
        _ => lo + (hi - lo) * t,
    };
    if v.is_nan() { lo } else { v.clamp(lo, hi) }
}

pub fn samples_strategy(n: std::ops::RangeInclusive<usize>) -> BoxedStrategy<Vec<Vec<u16>>> {
    let t = prop_oneof![
        2 => Just(0u16),
        2 => Just(1000u16),
        1 => Just(500u16),
        4 => 0u16..=1000,
    ];
    vec(vec(t, 8..=8), n).boxed()
}

/// Satisfaction of the enclosure statement for one node
#[derive(PartialEq, Debug)]
enum Sat {
    NanInterval,
    NanPoint,
    Exact,
    Slack,
    No,
}

fn sat(i: Interval, p: f32) -> Sat {
    if i.has_nan() {
        Sat::NanInterval
    } else if p.is_nan() {
        Sat::NanPoint
    } else if i.lower() <= p && p <= i.upper() {
        Sat::Exact
    } else if ulps(p, i.lower()) <= 4 || ulps(p, i.upper()) <= 4 {
        Sat::Slack
    } else {
        Sat::No
    }
}

/// The operand's interval is a zero with one bit pattern and the point value
/// is the zero of the other sign (finding F6)
fn other_zero(i: Option<Interval>, p: f32) -> bool {
    match i {
        Some(i) => {
            p == 0.0
                && i.lower() == 0.0
                && i.lower().to_bits() == i.upper().to_bits()
                && i.lower().to_bits() != p.to_bits()
        }
        None => false,
    }
}

fn check_backend(
    what: &str,
    b: &Built,
    roots: &[Node],
    order: &[Node],
    out: &[Interval],
    pts: &[HashMap<Node, f32>],
    root_index: &HashMap<Node, usize>,
    input_iv: &HashMap<Node, Interval>,
    cx: &mut Cx,
    nontrivial: &mut bool,
) -> CheckResult {
    let iv_of = |n: Node| -> Option<Interval> {
        match b.ctx.get_op(n).unwrap() {
            Op::Input(..) => input_iv.get(&n).copied(),
            Op::Const(c) => Some(Interval::from(c.0)),
            _ => root_index.get(&n).map(|k| out[*k]),
        }
    };
    for vals in pts {
        let mut taint: HashMap<Node, bool> = HashMap::new();
        for n in order {
            let op = *b.ctx.get_op(*n).unwrap();
            let Some(i) = iv_of(*n) else {
                taint.insert(*n, true);
                continue;
            };
            let p = vals[n];
            let s = sat(i, p);
            let mut t = false;
            for c in op.iter_children() {
                let ci = iv_of(c).unwrap();
                let cp = vals[&c];
                // an operand that is not *exactly* inside its own interval (or
                // NaN under a non-NaN interval) invalidates the local reasoning
                let exact = ci.has_nan() || (ci.lower() <= cp && cp <= ci.upper());
                let nan_under = cp.is_nan() && !ci.has_nan();
                if taint[&c] || !exact || nan_under {
                    t = true;
                }
            }
            // stated exclusion: atan2 with both arguments zero
            let mut excluded = false;
            let mut f6 = false;
            match op {
                Op::Binary(BinaryOpcode::Atan, l, r)
                    if vals[&l] == 0.0 && vals[&r] == 0.0 =>
                {
                    cx.ev.count("excluded_atan2_of_zero_zero");
                    excluded = true;
                }
                // F6: rand / mix hash the sign of a zero, which a [0, 0]
                // interval cannot represent
                // (recognised only when the operand's OWN interval is a zero
                // with one bit pattern at both ends and the point value is the
                // zero of the other sign; an operand interval [-0, +0] has two
                // bit patterns and must not be hashed as one value)
                Op::Unary(UnaryOpcode::Rand, a) => f6 = other_zero(iv_of(a), vals[&a]),
                Op::Binary(BinaryOpcode::Mix, l, r) => {
                    f6 = other_zero(iv_of(l), vals[&l]) || other_zero(iv_of(r), vals[&r])
                }
                _ => {}
            }
            if f6 && s == Sat::No && !t && cx.known("rand-mix-zero-operand") {
                excluded = true;
            }
            // F18: JIT mul / div whose bound products include a NaN (0 * inf,
            // inf / inf): the SSE lane min / max drop real products
            let mut f18 = false;
            if what == "jit" {
                if let Op::Binary(o @ (BinaryOpcode::Mul | BinaryOpcode::Div), l, r) = op {
                    let (a, b) = (iv_of(l).unwrap(), iv_of(r).unwrap());
                    // mixed NaN / non-NaN bound products: either a NaN born
                    // from non-NaN bounds (0 * inf, inf / inf), or a half-NaN
                    // operand such as [NaN, inf] handed over by the JIT's own
                    // add / sub (finding F14 of C11)
                    let (mut nan_products, mut real_products) = (0, 0);
                    for x in [a.lower(), a.upper()] {
                        for y in [b.lower(), b.upper()] {
                            let p = if o == BinaryOpcode::Mul { x * y } else { x / y };
                            if p.is_nan() {
                                nan_products += 1;
                            } else {
                                real_products += 1;
                            }
                        }
                    }
                    f18 = nan_products > 0 && real_products > 0;
                }
            }
            if f18 && s == Sat::No && !t && cx.known("F18-jit-interval-mul-nan-product") {
                excluded = true;
            }
            if excluded {
                taint.insert(*n, true);
                continue;
            }
            taint.insert(*n, t);
            if matches!(op, Op::Input(..) | Op::Const(..)) {
                continue;
            }
            if t {
                cx.ev.count("obligations_skipped_tainted_operand");
                if s == Sat::No {
                    cx.ev.count("global_misses_at_tainted_nodes");
                }
                continue;
            }
            cx.ev.count("local_obligations");
            match s {
                Sat::NanInterval => cx.ev.count("sat_nan_interval"),
                Sat::NanPoint => cx.ev.count("sat_nan_point"),
                Sat::Exact => {
                    cx.ev.count("sat_exact");
                    if i.lower() < i.upper()
                        && op.iter_children().any(|c| {
                            !matches!(
                                b.ctx.get_op(c).unwrap(),
                                Op::Input(..) | Op::Const(..)
                            )
                        })
                    {
                        *nontrivial = true;
                    }
                }
                Sat::Slack => cx.ev.count("sat_within_4_ulp_slack"),
                Sat::No => {
                    let ops: Vec<String> = op
                        .iter_children()
                        .map(|c| {
                            format!(
                                "[{}, {}] ∋ {}",
                                fl_to_string(iv_of(c).unwrap().lower()),
                                fl_to_string(iv_of(c).unwrap().upper()),
                                fl_to_string(vals[&c])
                            )
                        })
                        .collect();
                    fail!(
                        if f6 {
                            "rand-mix-zero-operand".to_string()
                        } else if f18 {
                            "F18-jit-interval-mul-nan-product".to_string()
                        } else {
                            format!("enclosure-{what}")
                        },
                        "{what}: {:?} with operands {} gives interval [{}, {}] but the point value is {}",
                        op,
                        ops.join(" , "),
                        fl_to_string(i.lower()),
                        fl_to_string(i.upper()),
                        fl_to_string(p)
                    );
                }
            }
        }
    }
    let _ = roots;
    Ok(())
}

impl Prop for P {
    const ID: &'static str = "C03";
    type Case = Case;

    fn strategy(tier: Tier) -> BoxedStrategy<Case> {
        let max = tier.pick(40, 120);
        let mut p = gens::DagParams::all(max);
        p.max_vars = 4;
        let enclose = (
            gens::dag(p),
            vec(interval_strategy(1e30), 8..=8),
            samples_strategy(4..=tier.pick(8, 16)),
        )
            .prop_map(|(dag, boxes, samples)| {
                let boxes = gens::coincide_boxes(&dag, boxes, 1e30);
                Case::Enclose { dag, boxes, samples }
            });
        let entry = prop_oneof![
            3 => gens::fl_uniform(-2.0, 2.0),
            2 => Just(Fl(0.0)),
            1 => Just(Fl(1.0)),
            1 => gens::fl_grid(),
        ];
        let transform = (
            vec(entry, 16..=16),
            // 0: affine, 1: general projective, 2: perspective along z (bottom
            // row 0 0 p 1, what the viewers build)
            prop_oneof![3 => Just(0u8), 3 => Just(1u8), 2 => Just(2u8)],
            vec(interval_strategy(100.0), 3..=3),
            samples_strategy(4..=12),
        )
            .prop_map(|(mut mat, kind, boxes, samples)| {
                if kind != 1 {
                    mat[12] = Fl(0.0);
                    mat[13] = Fl(0.0);
                    if kind == 0 {
                        mat[14] = Fl(0.0);
                    }
                    mat[15] = Fl(1.0);
                }
                Case::Transform {
                    mat,
                    boxes,
                    samples,
                }
            });
        // wide programs: more than 256 values alive at once, so that memory
        // slots beyond a byte are used (interval Load / Store at that scale)
        let mut pw = gens::DagParams::all(60);
        pw.consts = gens::fl_moderate();
        pw.max_vars = 4;
        let wide = (
            gens::dag_wide(pw, 1..=4, 257..=300, false),
            vec(interval_strategy(1e3), 8..=8),
            samples_strategy(4..=6),
        )
            .prop_map(|(dag, boxes, samples)| Case::Enclose { dag, boxes, samples });
        prop_oneof![tier.pick(300, 300) => enclose, tier.pick(50, 50) => transform, 1 => wide].boxed()
    }

    fn check(case: &Case, cx: &mut Cx) -> CheckResult {
        match case {
            Case::Enclose {
                dag,
                boxes,
                samples,
            } => {
                let b = build_dag(dag);
                let roots = crate::p01::roots_of(&b, &None);
                let order = topo(&b.ctx, &roots);
                let root_index: HashMap<Node, usize> =
                    roots.iter().enumerate().map(|(i, n)| (*n, i)).collect();
                // reference point values
                let mut pts = vec![];
                for s in samples {
                    let p: Vec<Fl> = (0..8)
                        .map(|i| Fl(sample_in(boxes[i].0.0, boxes[i].1.0, s[i])))
                        .collect();
                    let pm = point_map(&b.vars, &p);
                    pts.push(eval_all(&b.ctx, &roots, &pm));
                }
                let mut input_iv = HashMap::new();
                for (i, n) in b.var_nodes.iter().enumerate() {
                    input_iv.insert(*n, Interval::new(boxes[i].0.0, boxes[i].1.0));
                }
                let nondegenerate_box = (0..b.vars.len())
                    .any(|i| boxes[i].0.0 < boxes[i].1.0);
                let mut nontrivial = false;

                // interpreter
                let vf = VmFunction::new(&b.ctx, &roots).unwrap();
                let input = |vm: &fidget_core::var::VarMap| -> Vec<Interval> {
                    let mut v = vec![Interval::from(0.0); vm.len()];
                    for (i, var) in b.vars.iter().enumerate() {
                        if let Some(slot) = vm.get(var) {
                            v[slot] = Interval::new(boxes[i].0.0, boxes[i].1.0);
                        }
                    }
                    v
                };
                {
                    let tape = vf.interval_tape(Default::default());
                    let mut ev = VmFunction::new_interval_eval();
                    let (out, _) = ev
                        .eval(&tape, &input(vf.vars()))
                        .map_err(|e| Fail::new("eval-error", format!("{e:?}")))?;
                    ensure!(out.len() == roots.len(), "output-len", "vm");
                    let out = out.to_vec();
                    check_backend(
                        "vm", &b, &roots, &order, &out, &pts, &root_index, &input_iv,
                        cx, &mut nontrivial,
                    )?;
                }
                // interpreter with four registers: nearly every tape spills, so the
                // interval interpreter's Load / Store are exercised
                {
                    type V4 = fidget_core::vm::GenericVmFunction<4>;
                    let vf = V4::new(&b.ctx, &roots).unwrap();
                    let tape = vf.interval_tape(Default::default());
                    let mut ev = V4::new_interval_eval();
                    let (out, _) = ev
                        .eval(&tape, &input(vf.vars()))
                        .map_err(|e| Fail::new("eval-error", format!("{e:?}")))?;
                    ensure!(out.len() == roots.len(), "output-len", "vm4");
                    let out = out.to_vec();
                    check_backend(
                        "vm", &b, &roots, &order, &out, &pts, &root_index, &input_iv,
                        cx, &mut nontrivial,
                    )?;
                }
                // JIT
                {
                    let jf = JitFunction::new(&b.ctx, &roots).unwrap();
                    let tape = jf.interval_tape(Default::default());
                    let mut ev = JitFunction::new_interval_eval();
                    let (out, _) = ev
                        .eval(&tape, &input(jf.vars()))
                        .map_err(|e| Fail::new("eval-error", format!("{e:?}")))?;
                    ensure!(out.len() == roots.len(), "output-len", "jit");
                    let out = out.to_vec();
                    check_backend(
                        "jit", &b, &roots, &order, &out, &pts, &root_index, &input_iv,
                        cx, &mut nontrivial,
                    )?;
                }
                if nontrivial && nondegenerate_box {
                    cx.ev.nontrivial(case);
                }
                Ok(())
            }
            Case::Transform {
                mat,
                boxes,
                samples,
            } => {
                let m: Vec<f32> = mat.iter().map(|f| f.0).collect();
                let mat = Matrix4::from_row_slice(&m);
                let iv: Vec<Interval> = boxes
                    .iter()
                    .map(|(l, u)| Interval::new(l.0, u.0))
                    .collect();
                let (ix, iy, iz) =
                    <Interval as Transformable>::transform(iv[0], iv[1], iv[2], &mat);
                // scale for the rounding tolerance: sum of |terms| of each row
                let maxabs = |i: Interval| i.lower().abs().max(i.upper().abs());
                let row_scale = |r: usize| -> f32 {
                    mat[(r, 0)].abs() * maxabs(iv[0])
                        + mat[(r, 1)].abs() * maxabs(iv[1])
                        + mat[(r, 2)].abs() * maxabs(iv[2])
                        + mat[(r, 3)].abs()
                };
                // w interval (as computed by the same formula)
                let w = iv[0] * mat[(3, 0)]
                    + iv[1] * mat[(3, 1)]
                    + iv[2] * mat[(3, 2)]
                    + Interval::from(mat[(3, 3)]);
                let w_min = w.lower().abs().min(w.upper().abs());
                let w_safe = !w.has_nan()
                    && (w.lower() > 0.0 || w.upper() < 0.0)
                    && w_min > 1e-3 * row_scale(3).max(1e-3);
                for s in samples {
                    let p: Vec<f32> = (0..3)
                        .map(|i| sample_in(boxes[i].0.0, boxes[i].1.0, s[i]))
                        .collect();
                    let (px, py, pz) =
                        <f32 as Transformable>::transform(p[0], p[1], p[2], &mat);
                    for (r, (i, pv)) in
                        [(ix, px), (iy, py), (iz, pz)].into_iter().enumerate()
                    {
                        cx.ev.count("transform_obligations");
                        if i.has_nan() || pv.is_nan() {
                            cx.ev.count("transform_nan");
                            continue;
                        }
                        if !w_safe {
                            cx.ev.count("transform_skipped_w_near_zero");
                            continue;
                        }
                        let tol = 1e-5
                            * (row_scale(r) / w_min
                                + row_scale(r) * row_scale(3) / (w_min * w_min))
                            + 1e-30;
                        if !(i.lower() - tol <= pv && pv <= i.upper() + tol) {
                            fail!(
                                "transform-enclosure",
                                "row {r}: transformed point {} outside transformed box [{}, {}] (tol {tol}); mat {:?} box {:?} point {:?}",
                                pv,
                                i.lower(),
                                i.upper(),
                                m,
                                boxes,
                                p
                            );
                        }
                    }
                }
                if (0..3).any(|i| boxes[i].0.0 < boxes[i].1.0) {
                    cx.ev.nontrivial(case);
                }
                Ok(())
            }
        }
    }

    fn reduce(case: &Case) -> Vec<Case> {
        let mut out = vec![];
        if let Case::Enclose {
            dag,
            boxes,
            samples,
        } = case
        {
            if samples.len() > 1 {
                for s in samples {
                    out.push(Case::Enclose {
                        dag: dag.clone(),
                        boxes: boxes.clone(),
                        samples: vec![s.clone()],
                    });
                }
            }
            // try to prune to a suffix-free program: drop trailing nodes
            let nv = dag.nvars as usize;
            for k in (0..dag.nodes.len()).rev().take(30) {
                let (d2, _) = dag.prune(&[nv + k]);
                if d2.nodes.len() < dag.nodes.len() && !d2.nodes.is_empty() {
                    out.push(Case::Enclose {
                        dag: d2,
                        boxes: boxes.clone(),
                        samples: samples.clone(),
                    });
                }
            }
        }
        out
    }

    fn plan(tier: Tier) -> Plan {
        match tier {
            Tier::Quick => Plan {
                workers: 16,
                cases_per_worker: 15000,
                timeout_s: 1800,
                max_shrink_iters: 2000,
            },
            Tier::Thorough => Plan {
                workers: 16,
                cases_per_worker: 500000,
                timeout_s: 14400,
                max_shrink_iters: 2000,
            },
        }
    }

    fn rule() -> &'static str {
        "proptest-generated DAGs (all opcodes) with every node exported x one box per variable (degenerate, 1e-6..1e3 wide, \
         straddling zero, centred a few ulps around multiples of pi/2, log-uniform up to 1e30) x 4-16 points of the box \
         (corners, midpoints, interior) x {interpreter, JIT} interval evaluators. Oracle: per node, with the evaluator's own \
         operand intervals, the reference point value must lie in the node's interval unless the interval is NaN or the \
         point value is NaN (4 ulp slack counted separately); nodes with an operand that is not exactly enclosed are \
         skipped (tainted). Stated exclusion atan2(0,0) applied per node. Plus: Interval transform by a random affine or \
         projective 4x4 matrix must contain the f32 transform of every sampled point. Non-trivial = a composed node (operands \
         computed) with a non-degenerate, non-NaN interval on a non-degenerate box that exactly contains the point value."
    }

    fn assumptions() -> Vec<&'static str> {
        vec![
            "x86_64 JIT and the interpreter only; interval_ops.wgsl (GPU) and the aarch64 assembler are not exercised",
            "point values come from per-opcode graph evaluation (C01/C12 tie it to the other evaluators)",
        ]
    }
}
