//! C06 — 2D rendering equals per-pixel evaluation of the shape
use crate::build::*;
use crate::csg::{self, Csg};
use crate::engine::*;
use crate::gens;
use crate::refsem::same;
use crate::spec::*;
use crate::{ensure, fail};
use fidget_core::context::{Context, Node};
use fidget_core::eval::MathFunction;
use fidget_core::render::{ImageSize, RenderHints, ThreadPool, TileSizes};
use fidget_core::shape::{Shape, Transformable};
use fidget_core::vm::VmFunction;
use fidget_jit::JitFunction;
use fidget_raster::pixel::{DistancePixel, EvalConfig, RenderConfig};
use nalgebra::{Matrix3, Matrix4};
use proptest::collection::vec;
use proptest::prelude::*;
use serde::{Deserialize, Serialize};

#[derive(Clone, Debug, Serialize, Deserialize)]
pub enum ShapeSpec {
    Csg(Csg),
    Dag { dag: DagSpec, out: u16 },
    /// bundled model: 0 = hi, 1 = quarter, 2 = tanglecube, 3 = bear, 4 = colonnade, 5 = prospero
    Model(u8),
    /// a shape that hands the bit pattern of a bound free variable v to the
    /// output: form 0: v, 1: -v, 2: abs(v), 3: x + v, 4: min(x, v); `bits` is
    /// the value bound to v (any bit pattern, NaN payloads included)
    Var { form: u8, bits: u32 },
}

pub const MODELS: [&str; 6] = [
    "hi.vm",
    "quarter.vm",
    "tanglecube.vm",
    "bear.vm",
    "colonnade.vm",
    "prospero.vm",
];

impl ShapeSpec {
    pub fn build(&self) -> (Context, Node) {
        match self {
            ShapeSpec::Csg(c) => {
                let mut ctx = Context::new();
                let n = c.build(&mut ctx);
                (ctx, n)
            }
            ShapeSpec::Dag { dag, out } => {
                let b = build_dag(dag);
                let mut pool = b.var_nodes.clone();
                pool.extend(b.nodes.iter().cloned());
                let n = pool[sel_index(*out, pool.len())];
                (b.ctx, n)
            }
            ShapeSpec::Var { .. } => unreachable!("rendered by run_var"),
            ShapeSpec::Model(i) => {
                let path = format!("/repo/models/{}", MODELS[*i as usize % MODELS.len()]);
                let text = std::fs::read(&path).expect("model file");
                Context::from_text(&text[..]).expect("model parses")
            }
        }
    }
}

/// DAGs over the exact (no libm) alphabet on X, Y, Z
pub fn exact_dag(max_nodes: usize) -> BoxedStrategy<DagSpec> {
    let mut p = gens::DagParams::all(max_nodes).only(
        &[
            UnOp::Neg,
            UnOp::Abs,
            UnOp::Sqrt,
            UnOp::Square,
            UnOp::Floor,
            UnOp::Ceil,
            UnOp::Round,
            UnOp::Not,
            UnOp::Recip,
        ],
        &[
            BinOp::Add,
            BinOp::Sub,
            BinOp::Mul,
            BinOp::Div,
            BinOp::Min,
            BinOp::Max,
            BinOp::Compare,
            BinOp::And,
            BinOp::Or,
            BinOp::Mod,
        ],
    );
    p.min_vars = 3;
    p.max_vars = 3;
    p.min_nodes = 3;
    p.consts = prop_oneof![
        4 => gens::fl_uniform(-2.0, 2.0),
        2 => gens::fl_grid(),
    ]
    .boxed();
    p = p.boost_choices(5);
    gens::dag(p)
}

pub fn shape_spec(tier: Tier, csg_depth: u32) -> BoxedStrategy<ShapeSpec> {
    prop_oneof![
        6 => csg::csg(csg_depth, 1.0, 0.05, 0.8, true).prop_map(ShapeSpec::Csg),
        3 => (exact_dag(tier.pick(30, 60)), any::<u16>())
            .prop_map(|(dag, out)| ShapeSpec::Dag { dag, out }),
        1 => (0u8..tier.pick(5, 6)).prop_map(ShapeSpec::Model),
    ]
    .boxed()
}

/// Valid tile lists: descending, each a multiple of the next
pub fn tile_list() -> BoxedStrategy<Vec<usize>> {
    tile_list_max(512)
}

pub fn tile_list_max(max: usize) -> BoxedStrategy<Vec<usize>> {
    (
        prop_oneof![Just(1usize), Just(2), Just(3), Just(4), Just(5), Just(7), Just(8), Just(16)],
        vec(prop_oneof![Just(2usize), Just(3), Just(4), Just(8)], 0..=3),
    )
        .prop_map(move |(last, muls)| {
            let mut v = vec![last];
            for m in muls {
                let next = v[0] * m;
                if next > max {
                    break;
                }
                v.insert(0, next);
            }
            v
        })
        .boxed()
}

/// Arbitrary (mostly invalid) tile lists: 1-4 sizes in decreasing order from a
/// pool in which many pairs do not divide each other
pub fn tile_list_any() -> BoxedStrategy<Vec<usize>> {
    vec(
        prop_oneof![Just(2usize), Just(3), Just(4), Just(6), Just(8), Just(12), Just(16), Just(24), Just(32), Just(48)],
        1..=4,
    )
    .prop_map(|mut v| {
        v.sort_unstable_by(|a, b| b.cmp(a));
        v
    })
    .boxed()
}

/// The documented invariant of a tile-size list: not empty, strictly
/// decreasing, every size a multiple of the next
pub fn tile_list_valid(t: &[usize]) -> bool {
    !t.is_empty() && t.windows(2).all(|w| w[0] > w[1] && w[1] > 0 && w[0] % w[1] == 0)
}

/// `TileSizes::new` must accept exactly the valid lists.  Ok(None): the list
/// is invalid and was rejected (nothing to render).
pub fn tile_sizes_checked(t: &[usize], cx: &mut Cx) -> Result<Option<TileSizes>, Fail> {
    match (TileSizes::new(t), tile_list_valid(t)) {
        (Ok(ts), true) => Ok(Some(ts)),
        (Err(e), true) => Err(Fail::new("tile-list-rejected", format!("valid tile list {t:?} rejected: {e}"))),
        (Err(_), false) => {
            cx.ev.count("invalid_tile_lists_rejected");
            Ok(None)
        }
        (Ok(_), false) => Err(Fail::new(
            "invalid-tile-list-accepted",
            format!("TileSizes::new accepted {t:?}, in which a size is not a multiple of the next (the recursion would not cover its tiles)"),
        )),
    }
}

#[derive(Clone, Debug, Serialize, Deserialize)]
pub struct Case {
    pub shape: ShapeSpec,
    pub width: u32,
    pub height: u32,
    /// world-to-model 3x3 (row major); None = identity
    pub mat: Option<Vec<Fl>>,
    pub z: Fl,
    pub pixel_perfect: bool,
    pub tiles: Option<Vec<usize>>,
    pub jit: bool,
    /// 0 = no pool, 1 = global pool, n >= 2: custom pool of n threads
    pub threads: u8,
}

pub struct P;

/// The documented screen-to-world map, built independently:
/// x' = (x - w/2) * s, y' = -(y - (h/2 - 1)) * s, s = 2 / min(w, h)
pub fn screen_to_world_2d(w: u32, h: u32) -> Matrix3<f32> {
    let cx = w as f32 / 2.0;
    let cy = h as f32 / 2.0 - 1.0;
    let s = 2.0 / (w.min(h) as f32);
    Matrix3::new(s, 0.0, -cx * s, 0.0, -s, -cy * -s, 0.0, 0.0, 1.0)
}

pub fn mat3_strategy() -> BoxedStrategy<Option<Vec<Fl>>> {
    let affine = (
        0u32..=3600,
        gens::fl_uniform(0.3, 3.0),
        gens::fl_uniform(0.3, 3.0),
        gens::fl_uniform(-1.0, 1.0),
        gens::fl_uniform(-1.0, 1.0),
        prop_oneof![3 => Just((Fl(0.0), Fl(0.0))), 1 => (gens::fl_uniform(-0.1, 0.1), gens::fl_uniform(-0.1, 0.1))],
    )
        .prop_map(|(ang, sx, sy, tx, ty, (p0, p1))| {
            let a = (ang as f32 / 10.0).to_radians();
            let (s, c) = a.sin_cos();
            Some(vec![
                Fl(c * sx.0),
                Fl(-s * sy.0),
                tx,
                Fl(s * sx.0),
                Fl(c * sy.0),
                ty,
                p0,
                p1,
                Fl(1.0),
            ])
        });
    prop_oneof![1 => Just(None), 3 => affine].boxed()
}

pub fn make_pool(threads: u8) -> Option<ThreadPool> {
    match threads {
        0 => None,
        1 => Some(ThreadPool::Global),
        n => Some(ThreadPool::Custom(
            rayon::ThreadPoolBuilder::new()
                .num_threads(n as usize)
                .build()
                .unwrap(),
        )),
    }
}

fn run<F: MathFunction + RenderHints>(case: &Case, cx: &mut Cx) -> CheckResult {
    let (ctx, root) = case.shape.build();
    let shape = Shape::<F>::new(&ctx, root).unwrap();
    let size = ImageSize::new(case.width, case.height);
    let world_to_model = match &case.mat {
        None => Matrix3::identity(),
        Some(m) => Matrix3::from_row_slice(&m.iter().map(|f| f.0).collect::<Vec<_>>()),
    };
    let cfg = RenderConfig {
        image_size: size,
        world_to_model,
        pixel_perfect: case.pixel_perfect,
        z: case.z.0,
    };
    // the screen-to-world matrix is part of what is checked
    let s2w = size.screen_to_world();
    let mine = screen_to_world_2d(case.width, case.height);
    for r in 0..3 {
        for c in 0..3 {
            ensure!(
                s2w[(r, c)] == mine[(r, c)],
                "screen-to-world",
                "entry ({r},{c}) of screen_to_world for {}x{} is {} but the documented map gives {}",
                case.width,
                case.height,
                s2w[(r, c)],
                mine[(r, c)]
            );
        }
    }
    let m3 = world_to_model * s2w;
    let t4 = Matrix4::new(
        m3[(0, 0)], m3[(0, 1)], 0.0, m3[(0, 2)],
        m3[(1, 0)], m3[(1, 1)], 0.0, m3[(1, 2)],
        0.0, 0.0, 1.0, 0.0,
        m3[(2, 0)], m3[(2, 1)], 0.0, m3[(2, 2)],
    );

    let pool = make_pool(case.threads);
    let tiles = match &case.tiles {
        None => None,
        Some(t) => match tile_sizes_checked(t, cx)? {
            Some(ts) => Some(ts),
            None => return Ok(()),
        },
    };
    let root_tile = {
        let list: Vec<usize> = match &case.tiles {
            Some(t) => t.clone(),
            None => F::tile_sizes_2d().iter().cloned().collect(),
        };
        let max = case.width.max(case.height) as usize;
        // smallest listed size that is >= max (or the largest)
        list.iter().cloned().filter(|t| *t >= max).min().unwrap_or(list[0])
    };
    let eval_cfg = EvalConfig {
        tile_sizes: tiles,
        threads: pool.as_ref(),
        cancel: Default::default(),
    };
    let bound = shape.try_into().map_err(|_| Fail::new("harness", "shape has free variables"))?;
    let image = fidget_raster::pixel::render::<F>(bound, &cfg, &eval_cfg)
        .ok_or_else(|| Fail::new("render-returned-none", "render returned None without cancellation"))?;
    ensure!(
        image.width() == case.width as usize
            && image.height() == case.height as usize
            && image.len() == (case.width * case.height) as usize,
        "image-size",
        "image is {}x{} ({} pixels), expected {}x{}",
        image.width(),
        image.height(),
        image.len(),
        case.width,
        case.height
    );

    let flat = Flat::new(&ctx, &[root]);
    let ri = flat.index[&root];
    let mut vals = vec![];
    let (mut fills, mut values, mut inside, mut outside) = (0u64, 0u64, 0u64, 0u64);
    image_access(
        &image,
        case.width as usize,
        case.height as usize,
        |p| match p.unpack() {
            DistancePixel::Value(v) => v.to_bits() as u128,
            DistancePixel::Fill { depth, inside } => (1u128 << 40) | ((depth as u128) << 1) | inside as u128,
        },
        cx,
    )?;
    let data = image.as_slice();
    for j in 0..case.height as usize {
        for i in 0..case.width as usize {
            let (qx, qy, qz) =
                <f32 as Transformable>::transform(i as f32, j as f32, case.z.0, &t4);
            flat.eval_xyz(qx, qy, qz, &mut vals);
            let v = vals[ri];
            let px = data[j * case.width as usize + i];
            let is_in = px.inside();
            if is_in {
                inside += 1
            } else {
                outside += 1
            }
            match px.unpack() {
                DistancePixel::Fill { .. } => {
                    fills += 1;
                    ensure!(
                        !case.pixel_perfect,
                        "fill-in-pixel-perfect",
                        "pixel ({i},{j}) is a Fill in pixel-perfect mode"
                    );
                    if is_in != (v < 0.0) {
                        if v.is_nan() && flat.nan_from_inf(&vals) {
                            if cx.known("F11-fill-over-nan-from-infinity") {
                                continue;
                            }
                            fail!(
                                "F11-fill-over-nan-from-infinity",
                                "pixel ({i},{j}) filled as {} but the value at its sample position is a NaN born from an infinite operand, which the interval evaluator does not see",
                                if is_in { "inside" } else { "outside" }
                            );
                        }
                        fail!(
                            "fill-wrong",
                            "pixel ({i},{j}) of {}x{} filled as {} but the shape's value at its sample position ({qx}, {qy}, {qz}) is {}",
                            case.width,
                            case.height,
                            if is_in { "inside" } else { "outside" },
                            fl_to_string(v)
                        );
                    }
                }
                DistancePixel::Value(pv) => {
                    values += 1;
                    // the report must follow the carried value: inside exactly
                    // when it is negative (a NaN is not negative)
                    if pv.is_nan() {
                        cx.ev.count("value_pixels_carrying_nan");
                    }
                    ensure!(
                        is_in == (pv < 0.0),
                        "inside-report-wrong",
                        "pixel ({i},{j}) of {}x{} carries the value {} but is reported {}",
                        case.width,
                        case.height,
                        fl_to_string(pv),
                        if is_in { "inside" } else { "outside" }
                    );
                    if same(pv, v) {
                        continue;
                    }
                    // JIT: tolerated zero-sign / NaN-hash differences upstream
                    let taint = flat.taint(&vals);
                    if taint[ri] || (pv == 0.0 && v == 0.0) {
                        cx.ev.count("pixels_skipped_tainted");
                        continue;
                    }
                    if v.is_nan() && flat.nan_from_inf(&vals) {
                        if cx.known("F11-fill-over-nan-from-infinity") {
                            continue;
                        }
                        fail!(
                            "F11-fill-over-nan-from-infinity",
                            "pixel ({i},{j}) carries {} but the value at its sample position is a NaN born from an infinite operand: the tile's interval evaluation decided a choice without seeing it",
                            fl_to_string(pv)
                        );
                    }
                    fail!(
                        "pixel-value-wrong",
                        "pixel ({i},{j}) of {}x{} carries {} but the shape's value at its sample position ({qx}, {qy}, {qz}) is {}",
                        case.width,
                        case.height,
                        fl_to_string(pv),
                        fl_to_string(v)
                    );
                }
            }
        }
    }
    cx.ev.add("pixels_checked", (case.width * case.height) as u64);
    cx.ev.add("fill_pixels", fills);
    cx.ev.add("value_pixels", values);
    let ragged = case.width as usize % root_tile != 0 || case.height as usize % root_tile != 0;
    if ragged {
        cx.ev.count("images_not_multiple_of_root_tile");
    }
    if case.pixel_perfect {
        cx.ev.count("pixel_perfect_images");
    }
    if fills > 0 && values > 0 && inside > 0 && outside > 0 && ragged {
        cx.ev.nontrivial(case);
    }
    Ok(())
}

/// Every way of reading an image must agree with the row-major slice:
/// `(row, column)` indexing, linear and range indexing, iteration, `map`,
/// the reported size, and `take` / `build` round trips
pub fn image_access<P, S>(
    image: &fidget_raster::Image<P, S>,
    w: usize,
    h: usize,
    bits: impl Fn(&P) -> u128,
    cx: &mut Cx,
) -> CheckResult
where
    P: Clone + Send,
    S: fidget_raster::RenderSize + Clone + Sync,
{
    let data = image.as_slice();
    ensure!(
        image.width() == w && image.height() == h && image.len() == w * h && data.len() == w * h && image.is_empty() == (w * h == 0),
        "image-size",
        "image reports {}x{}, len {} (slice {}), is_empty {} for a {w}x{h} render",
        image.width(),
        image.height(),
        image.len(),
        data.len(),
        image.is_empty()
    );
    let size = image.size();
    ensure!(
        size.width() as usize == w && size.height() as usize == h,
        "image-size",
        "size() is {}x{} for a {w}x{h} render",
        size.width(),
        size.height()
    );
    let step = (w * h / 97).max(1);
    for k in (0..w * h).step_by(step).chain([w * h - 1]) {
        let (row, col) = (k / w, k % w);
        ensure!(
            bits(&image[(row, col)]) == bits(&data[k]) && bits(&image[k]) == bits(&data[k]) && bits(&image[k..=k][0]) == bits(&data[k]),
            "image-index",
            "pixel (row {row}, column {col}) of a {w}x{h} image read through (row, col) / linear / range indexing differs from the row-major slice"
        );
    }
    ensure!(
        image.iter().count() == w * h && image.iter().zip(data).all(|(a, b)| bits(a) == bits(b)) && (&*image).into_iter().count() == w * h,
        "image-iter",
        "iter() does not yield the {w}x{h} pixels in row-major order"
    );
    let mapped = image.map(|p| bits(p));
    ensure!(
        mapped.width() == w && mapped.height() == h && mapped.as_slice().iter().zip(data).all(|(a, b)| *a == bits(b)),
        "image-map",
        "map() changed the size or the order of a {w}x{h} image"
    );
    let (v, s2) = image.clone().take();
    ensure!(
        v.len() == w * h && s2.width() as usize == w && s2.height() as usize == h,
        "image-take",
        "take() returned {} pixels and size {}x{}",
        v.len(),
        s2.width(),
        s2.height()
    );
    let rebuilt = fidget_raster::Image::build(v.clone(), s2.clone());
    ensure!(
        rebuilt.as_ref().map(|r| r.width() == w && r.height() == h && r.len() == w * h).unwrap_or(false),
        "image-build",
        "build() rejected or changed the {w}x{h} image it was taken from"
    );
    if w * h > 0 {
        let mut short = v;
        short.pop();
        ensure!(
            fidget_raster::Image::build(short, s2).is_err(),
            "image-build",
            "build() accepted {} pixels for a {w}x{h} image",
            w * h - 1
        );
    }
    cx.ev.count("image_access_checked");
    Ok(())
}

/// Shapes with a bound free variable: whatever bit pattern the caller binds, a
/// pixel carries the shape's value there (NaN matching NaN) and is reported
/// inside exactly when that value is negative
fn run_var<F: MathFunction + RenderHints>(case: &Case, form: u8, bits: u32, cx: &mut Cx) -> CheckResult {
    use fidget_core::shape::ShapeVars;
    use fidget_core::var::Var;
    let value = f32::from_bits(bits);
    let mut ctx = Context::new();
    let var = Var::new();
    let v = ctx.var(var);
    let x = ctx.x();
    let root = match form % 5 {
        0 => v,
        1 => ctx.neg(v).unwrap(),
        2 => ctx.abs(v).unwrap(),
        3 => ctx.add(x, v).unwrap(),
        _ => ctx.min(x, v).unwrap(),
    };
    let shape = Shape::<F>::new(&ctx, root).unwrap();
    let mut vars: ShapeVars<f32> = ShapeVars::new();
    vars.insert(var.index().unwrap(), value);
    let bound = shape.bind(&vars).map_err(|e| Fail::new("harness", format!("{e:?}")))?;
    let (w, h) = (case.width.min(12), case.height.min(12));
    let size = ImageSize::new(w, h);
    let cfg = RenderConfig {
        image_size: size,
        world_to_model: Matrix3::identity(),
        pixel_perfect: case.pixel_perfect,
        z: 0.0,
    };
    let pool = make_pool(case.threads);
    let eval_cfg = EvalConfig {
        tile_sizes: None,
        threads: pool.as_ref(),
        cancel: Default::default(),
    };
    let image = fidget_raster::pixel::render::<F>(bound, &cfg, &eval_cfg)
        .ok_or_else(|| Fail::new("render-returned-none", "render returned None without cancellation"))?;
    let s2w = screen_to_world_2d(w, h);
    let data = image.as_slice();
    cx.ev.count("variable_shapes_rendered");
    if value.is_nan() {
        cx.ev.count("variable_bound_to_a_nan");
    }
    for j in 0..h as usize {
        for i in 0..w as usize {
            let qx = s2w[(0, 0)] * i as f32 + s2w[(0, 1)] * j as f32 + s2w[(0, 2)];
            let want = match form % 5 {
                0 => value,
                1 => -value,
                2 => value.abs(),
                3 => qx + value,
                _ => crate::refsem::bin(BinOp::Min, qx, value),
            };
            let px = data[j * w as usize + i];
            match px.unpack() {
                DistancePixel::Value(pv) => ensure!(
                    (same(pv, want) || (pv == 0.0 && want == 0.0)) && px.inside() == (want < 0.0),
                    "variable-pixel-wrong",
                    "shape form {} with v = {} ({bits:#010x}): pixel ({i},{j}) carries {} (inside: {}) but the value is {}",
                    form % 5,
                    fl_to_string(value),
                    fl_to_string(pv),
                    px.inside(),
                    fl_to_string(want)
                ),
                DistancePixel::Fill { inside, .. } => ensure!(
                    !case.pixel_perfect && inside == (want < 0.0) && px.inside() == inside,
                    "variable-pixel-wrong",
                    "shape form {} with v = {} ({bits:#010x}): pixel ({i},{j}) is a fill (inside: {inside}) but the value is {}",
                    form % 5,
                    fl_to_string(value),
                    fl_to_string(want)
                ),
            }
        }
    }
    Ok(())
}

impl Prop for P {
    const ID: &'static str = "C06";
    type Case = Case;

    fn strategy(tier: Tier) -> BoxedStrategy<Case> {
        let dim = tier.pick(96u32, 150u32);
        // a bound variable whose bit pattern reaches the pixels: every NaN
        // class (quiet / signalling, either sign, any 8-bit field of the
        // mantissa set, lowest bit set or not), special values, arbitrary bits
        let var_bits = prop_oneof![
            4 => (any::<bool>(), any::<bool>(), 0u32..23, any::<u8>(), any::<bool>()).prop_map(|(neg, quiet, shift, field, low)| {
                let mant = ((field as u32) << shift.min(14)) | low as u32 | if quiet { 1 << 22 } else { 0 };
                let mant = if mant & 0x7f_ffff == 0 { 1 } else { mant & 0x7f_ffff };
                0x7f80_0000 | mant | if neg { 1 << 31 } else { 0 }
            }),
            2 => gens::fl_any().prop_map(|f| f.0.to_bits()),
        ];
        let var_shape = (0u8..5, var_bits).prop_map(|(form, bits)| ShapeSpec::Var { form, bits });
        (
            prop_oneof![12 => shape_spec(tier, 4), 1 => var_shape],
            1u32..=dim,
            1u32..=dim,
            mat3_strategy(),
            prop_oneof![2 => Just(Fl(0.0)), 2 => gens::fl_uniform(-1.0, 1.0)],
            prop::bool::weighted(0.3),
            prop_oneof![3 => Just(None), 9 => tile_list().prop_map(Some), 1 => tile_list_any().prop_map(Some)],
            any::<bool>(),
            prop_oneof![4 => Just(0u8), 2 => Just(1u8), 1 => 2u8..=5],
        )
            .prop_map(
                |(shape, width, height, mat, z, pixel_perfect, tiles, jit, threads)| Case {
                    shape,
                    width,
                    height,
                    mat,
                    z,
                    pixel_perfect,
                    tiles,
                    jit,
                    threads,
                },
            )
            .boxed()
    }

    /// Every NaN class as the value of a bound variable that reaches the pixels
    /// untouched: each 8-bit field of the mantissa at each position, quiet and
    /// signalling, lowest bit set or clear (the pixel format keeps fills in NaN
    /// payloads, so a NaN computed by the shape must never read back as a fill)
    fn fixed_cases(_tier: Tier) -> Vec<Case> {
        let mut out = vec![];
        for shift in 0..=14u32 {
            for field in 0..=255u32 {
                for low in 0..2u32 {
                    for quiet in 0..2u32 {
                        let mant = ((field << shift) | low | (quiet << 22)) & 0x7f_ffff;
                        if mant == 0 {
                            continue;
                        }
                        let k = out.len();
                        out.push(Case {
                            shape: ShapeSpec::Var { form: (k % 3) as u8, bits: 0x7f80_0000 | mant | ((k as u32 / 3 % 2) << 31) },
                            width: 2,
                            height: 1,
                            mat: None,
                            z: Fl(0.0),
                            pixel_perfect: k % 2 == 0,
                            tiles: None,
                            jit: k % 5 == 0,
                            threads: 0,
                        });
                    }
                }
            }
        }
        out
    }

    fn check(case: &Case, cx: &mut Cx) -> CheckResult {
        if let ShapeSpec::Var { form, bits } = case.shape {
            return if case.jit {
                run_var::<JitFunction>(case, form, bits, cx)
            } else {
                run_var::<VmFunction>(case, form, bits, cx)
            };
        }
        if case.jit {
            cx.ev.count("backend_jit");
            run::<JitFunction>(case, cx)
        } else {
            cx.ev.count("backend_vm");
            run::<VmFunction>(case, cx)
        }
    }

    fn reduce(case: &Case) -> Vec<Case> {
        let mut out = vec![];
        let mut c = case.clone();
        c.threads = 0;
        out.push(c);
        if case.mat.is_some() {
            let mut c = case.clone();
            c.mat = None;
            out.push(c);
        }
        if case.jit {
            let mut c = case.clone();
            c.jit = false;
            out.push(c);
        }
        for (w, h) in [(case.width / 2, case.height), (case.width, case.height / 2)] {
            if w >= 1 && h >= 1 && (w, h) != (case.width, case.height) {
                let mut c = case.clone();
                c.width = w;
                c.height = h;
                out.push(c);
            }
        }
        out
    }

    fn plan(tier: Tier) -> Plan {
        match tier {
            Tier::Quick => Plan {
                workers: 16,
                cases_per_worker: 1200,
                timeout_s: 1800,
                max_shrink_iters: 300,
            },
            Tier::Thorough => Plan {
                workers: 16,
                cases_per_worker: 20000,
                timeout_s: 14400,
                max_shrink_iters: 300,
            },
        }
    }

    fn rule() -> &'static str {
        "generated scenes: shape = CSG (union/intersection/difference, depth <= 4) of spheres, boxes, cylinders and \
         half-spaces, or a random DAG over the exact (no-libm) alphabet on x, y, z, or a bundled model, or a shape that passes the bit pattern of a BOUND free variable to the output (v, -v, abs(v), x + v, min(x, v); fixed cases enumerate every NaN class); tile lists valid by construction or arbitrary (TileSizes::new must accept exactly the lists that satisfy the documented invariant); every way of reading the image (row/column, linear, range indexing, iteration, map, size, take / build) must agree with the row-major slice; Value pixels must be reported inside exactly when the carried value is negative; image width and \
         height independently in 1..=96 (thorough 150); world-to-model = identity or rotate*scale*translate (sometimes \
         with a perspective row); slice height z; pixel_perfect; tile list = default or a generated valid list \
         (e.g. [27,9,3], [16,4,2,1], [7]); backend interpreter or JIT; no pool / global pool / custom pool of 2-5 threads. \
         Oracle: for every pixel, the sample position is the pixel's (i, j, z) through the documented screen-to-world map \
         (rebuilt independently and compared with the library's) and the world-to-model matrix; a Fill pixel must be inside \
         exactly when the graph value there is negative; a Value pixel must carry that value bit-for-bit (NaN=NaN; JIT: \
         zero-sign taints excused). Non-trivial = the image contains both Fill and Value pixels, both inside and outside \
         pixels, and a dimension that is not a multiple of the root tile."
    }

    fn assumptions() -> Vec<&'static str> {
        vec![
            "nalgebra defines matrix products and transform_point",
            "CPU back ends only (interpreter, x86_64 JIT)",
        ]
    }
}
