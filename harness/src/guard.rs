//! Guard-page backed f32 slices: the data sits flush against a PROT_NONE page
//! (at its end, or at its start), so a native load or store one element
//! outside the caller's slice faults deterministically.
use std::ops::Deref;

pub struct Guarded {
    base: *mut u8,
    map_len: usize,
    ptr: *const f32,
    len: usize,
}

unsafe impl Send for Guarded {}
unsafe impl Sync for Guarded {}

const PAGE: usize = 4096;

impl Guarded {
    /// `at_end`: the slice ends exactly at the guard page; otherwise it starts
    /// right after one
    pub fn new(data: &[f32], at_end: bool) -> Guarded {
        let bytes = data.len() * 4;
        let data_pages = bytes.div_ceil(PAGE).max(1);
        let map_len = (data_pages + 2) * PAGE;
        unsafe {
            let base = libc::mmap(
                std::ptr::null_mut(),
                map_len,
                libc::PROT_READ | libc::PROT_WRITE,
                libc::MAP_PRIVATE | libc::MAP_ANONYMOUS,
                -1,
                0,
            ) as *mut u8;
            assert!(base as isize != -1, "mmap failed");
            // guard pages before and after the data pages
            libc::mprotect(base as *mut _, PAGE, libc::PROT_NONE);
            libc::mprotect(
                base.add((data_pages + 1) * PAGE) as *mut _,
                PAGE,
                libc::PROT_NONE,
            );
            let start = if at_end {
                base.add((data_pages + 1) * PAGE - bytes)
            } else {
                base.add(PAGE)
            };
            std::ptr::copy_nonoverlapping(data.as_ptr() as *const u8, start, bytes);
            Guarded {
                base,
                map_len,
                ptr: start as *const f32,
                len: data.len(),
            }
        }
    }
}

impl Deref for Guarded {
    type Target = [f32];
    fn deref(&self) -> &[f32] {
        unsafe { std::slice::from_raw_parts(self.ptr, self.len) }
    }
}

impl Drop for Guarded {
    fn drop(&mut self) {
        unsafe {
            libc::munmap(self.base as *mut _, self.map_len);
        }
    }
}
