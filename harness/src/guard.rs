//! Guard-page backed f32 slices: the data sits flush against a PROT_NONE page
//! (at its end, or at its start), so a native load or store one element
//! outside the caller's slice faults deterministically.
use std::ops::Deref;

pub struct Guarded {
    base: *mut u8,
    map_len: usize,
    ptr: *const f32,
    len: usize,
    /// small slices: a block from the guard-page allocator's slot pool (same
    /// placement, no system call)
    pooled: Option<Vec<f32>>,
}

unsafe impl Send for Guarded {}
unsafe impl Sync for Guarded {}

const PAGE: usize = 4096;

impl Guarded {
    /// `at_end`: the slice ends exactly at the guard page; otherwise it starts
    /// right after one
    pub fn new(data: &[f32], at_end: bool) -> Guarded {
        if !data.is_empty() && data.len() * 4 <= PAGE {
            let v = crate::galloc::with_guard(at_end, || data.to_vec());
            if crate::galloc::is_guarded(v.as_ptr() as *const u8) && v.capacity() == data.len() {
                return Guarded {
                    base: std::ptr::null_mut(),
                    map_len: 0,
                    ptr: v.as_ptr(),
                    len: v.len(),
                    pooled: Some(v),
                };
            }
        }
        let bytes = data.len() * 4;
        let data_pages = bytes.div_ceil(PAGE).max(1);
        let map_len = (data_pages + 2) * PAGE;
        unsafe {
            let base = libc::mmap(
                std::ptr::null_mut(),
                map_len,
                libc::PROT_READ | libc::PROT_WRITE,
                libc::MAP_PRIVATE | libc::MAP_ANONYMOUS,
                -1,
                0,
            ) as *mut u8;
            assert!(base as isize != -1, "mmap failed");
            // guard pages before and after the data pages
            libc::mprotect(base as *mut _, PAGE, libc::PROT_NONE);
            libc::mprotect(
                base.add((data_pages + 1) * PAGE) as *mut _,
                PAGE,
                libc::PROT_NONE,
            );
            let start = if at_end {
                base.add((data_pages + 1) * PAGE - bytes)
            } else {
                base.add(PAGE)
            };
            std::ptr::copy_nonoverlapping(data.as_ptr() as *const u8, start, bytes);
            Guarded {
                base,
                map_len,
                ptr: start as *const f32,
                len: data.len(),
                pooled: None,
            }
        }
    }
}

impl Deref for Guarded {
    type Target = [f32];
    fn deref(&self) -> &[f32] {
        unsafe { std::slice::from_raw_parts(self.ptr, self.len) }
    }
}

impl Drop for Guarded {
    fn drop(&mut self) {
        if self.pooled.is_none() {
            unsafe {
                libc::munmap(self.base as *mut _, self.map_len);
            }
        }
    }
}
