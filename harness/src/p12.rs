//! C12 — building expressions in a context preserves their meaning
use crate::build::*;
use crate::engine::*;
use crate::gens;
use crate::refsem;
use crate::spec::*;
use crate::{ensure, fail};
use fidget_core::context::{Context, Node, Op, Tree};
use fidget_core::var::Var;
use proptest::prelude::*;
use serde::{Deserialize, Serialize};
use std::collections::HashMap;
use std::hash::{Hash, Hasher};

#[derive(Clone, Debug, Serialize, Deserialize)]
pub enum Case {
    Meaning {
        dag: DagSpec,
        points: Vec<Vec<Fl>>,
        /// index of a node to mutate for the "differs from a mutated AST" check
        mutate: u16,
    },
    /// kind: 0 left-deep binary, 1 right-deep binary, 2 unary chain,
    /// 3 remap_xyz target chain, 4 remap_xyz axis chain, 5 mixed
    Deep { kind: u8, depth: u32 },
}

pub struct P;

pub fn tree_unary(op: UnOp, a: &Tree) -> Tree {
    match op {
        UnOp::Neg => a.neg(),
        UnOp::Abs => a.abs(),
        UnOp::Recip => a.recip(),
        UnOp::Sqrt => a.sqrt(),
        UnOp::Square => a.square(),
        UnOp::Floor => a.floor(),
        UnOp::Ceil => a.ceil(),
        UnOp::Round => a.round(),
        UnOp::Sin => a.sin(),
        UnOp::Cos => a.cos(),
        UnOp::Tan => a.tan(),
        UnOp::Asin => a.asin(),
        UnOp::Acos => a.acos(),
        UnOp::Atan => a.atan(),
        UnOp::Exp => a.exp(),
        UnOp::Ln => a.ln(),
        UnOp::Not => a.not(),
        UnOp::Rand => a.rand(),
    }
}

pub fn tree_binary(op: BinOp, a: &Tree, b: &Tree) -> Tree {
    match op {
        BinOp::Add => a.clone() + b.clone(),
        BinOp::Sub => a.clone() - b.clone(),
        BinOp::Mul => a.clone() * b.clone(),
        BinOp::Div => a.clone() / b.clone(),
        BinOp::Atan2 => a.atan2(b.clone()),
        BinOp::Min => a.min(b.clone()),
        BinOp::Max => a.max(b.clone()),
        BinOp::Compare => a.compare(b.clone()),
        BinOp::Mod => a.modulo(b.clone()),
        BinOp::And => a.and(b.clone()),
        BinOp::Or => a.or(b.clone()),
        BinOp::Mix => a.mix(b.clone()),
    }
}

/// One tree per pool entry (variables ++ nodes); `share`: reuse the operand
/// trees (Arc sharing) or rebuild every operand from scratch (separately
/// allocated, structurally equal)
pub fn build_trees(spec: &DagSpec) -> Vec<Tree> {
    build_trees_forms(spec, false)
}

/// `alt`: the sibling forms of the Tree API are used wherever they apply --
/// `tree op f32`, `f32 op tree` and `tree op= tree` for + - * /, `From<f32>` /
/// `From<i32>` for constants.  The result must be structurally equal to the
/// plain form.
pub fn build_trees_forms(spec: &DagSpec, alt: bool) -> Vec<Tree> {
    let mut pool: Vec<Tree> = (0..spec.nvars as usize)
        .map(|i| Tree::from(spec_var(i)))
        .collect();
    let mut consts: Vec<Option<f32>> = vec![None; pool.len()];
    let constant = |f: f32| -> Tree {
        if alt {
            if f == (f as i32) as f32 && f.abs() < 1e9 && !(f == 0.0 && f.is_sign_negative()) {
                Tree::from(f as i32)
            } else {
                Tree::from(f)
            }
        } else {
            Tree::constant(f)
        }
    };
    for n in &spec.nodes {
        let mut c = None;
        let t = if pool.is_empty() {
            match n {
                NodeSpec::C(f) => {
                    c = Some(f.0);
                    constant(f.0)
                }
                _ => {
                    c = Some(0.5);
                    constant(0.5)
                }
            }
        } else {
            match *n {
                NodeSpec::C(f) => {
                    c = Some(f.0);
                    constant(f.0)
                }
                NodeSpec::U(op, a) => tree_unary(op, &pool[sel_index(a, pool.len())]),
                NodeSpec::B(op, a, b) => {
                    let (ia, ib) = (sel_index(a, pool.len()), sel_index(b, pool.len()));
                    let (ta, tb) = (&pool[ia], &pool[ib]);
                    match (alt, op, consts[ia], consts[ib]) {
                        (true, BinOp::Add, _, Some(k)) => ta.clone() + k,
                        (true, BinOp::Sub, _, Some(k)) => ta.clone() - k,
                        (true, BinOp::Mul, _, Some(k)) => ta.clone() * k,
                        (true, BinOp::Div, _, Some(k)) => ta.clone() / k,
                        (true, BinOp::Add, Some(k), None) => k + tb.clone(),
                        (true, BinOp::Sub, Some(k), None) => k - tb.clone(),
                        (true, BinOp::Mul, Some(k), None) => k * tb.clone(),
                        (true, BinOp::Div, Some(k), None) => k / tb.clone(),
                        (true, BinOp::Add, None, None) => {
                            let mut t = ta.clone();
                            t += tb.clone();
                            t
                        }
                        (true, BinOp::Sub, None, None) => {
                            let mut t = ta.clone();
                            t -= tb.clone();
                            t
                        }
                        (true, BinOp::Mul, None, None) => {
                            let mut t = ta.clone();
                            t *= tb.clone();
                            t
                        }
                        (true, BinOp::Div, None, None) => {
                            let mut t = ta.clone();
                            t /= tb.clone();
                            t
                        }
                        _ => tree_binary(op, ta, tb),
                    }
                }
            }
        };
        pool.push(t);
        consts.push(c);
    }
    pool
}

pub fn build_trees_sharing(spec: &DagSpec, base: &[Tree], mi: usize) -> Vec<Tree> {
    let nv = spec.nvars as usize;
    let mut pool: Vec<Tree> = base[..nv + mi].to_vec();
    let mut dirty = vec![false; nv + mi];
    for (k, n) in spec.nodes.iter().enumerate().skip(mi) {
        let len = pool.len();
        let (t, d) = match *n {
            _ if k == mi => {
                let t = match *n {
                    NodeSpec::C(f) => Tree::constant(f.0),
                    NodeSpec::U(op, a) => tree_unary(op, &pool[sel_index(a, len)]),
                    NodeSpec::B(op, a, b) => tree_binary(op, &pool[sel_index(a, len)], &pool[sel_index(b, len)]),
                };
                (t, true)
            }
            NodeSpec::U(op, a) if dirty[sel_index(a, len)] => (tree_unary(op, &pool[sel_index(a, len)]), true),
            NodeSpec::B(op, a, b) if dirty[sel_index(a, len)] || dirty[sel_index(b, len)] => {
                (tree_binary(op, &pool[sel_index(a, len)], &pool[sel_index(b, len)]), true)
            }
            _ => (base[k + nv].clone(), false),
        };
        pool.push(t);
        dirty.push(d);
    }
    pool
}

/// Reference values of every pool entry, un-rewritten, operation by operation
fn ref_values(spec: &DagSpec, p: &[Fl]) -> Vec<f32> {
    let mut pool: Vec<f32> = (0..spec.nvars as usize).map(|i| p[i].0).collect();
    for n in &spec.nodes {
        let v = if pool.is_empty() {
            match n {
                NodeSpec::C(f) => f.0,
                _ => 0.5,
            }
        } else {
            match *n {
                NodeSpec::C(f) => f.0,
                NodeSpec::U(op, a) => refsem::un(op, pool[sel_index(a, pool.len())]),
                NodeSpec::B(op, a, b) => refsem::bin(
                    op,
                    pool[sel_index(a, pool.len())],
                    pool[sel_index(b, pool.len())],
                ),
            }
        };
        pool.push(v);
    }
    pool
}

/// Is the reference evaluation decisive for pool entry `root`?  Every
/// intermediate below it must be finite, and no zero may reach atan2 / rand /
/// mix (the only opcodes that turn the sign of a zero into a different finite
/// value; 1/0 and x/0 are already excluded as non-finite)
fn decisive(spec: &DagSpec, vals: &[f32], root: usize) -> bool {
    let nv = spec.nvars as usize;
    let mut stack = vec![root];
    let mut seen = vec![false; vals.len()];
    while let Some(p) = stack.pop() {
        if seen[p] {
            continue;
        }
        seen[p] = true;
        if !vals[p].is_finite() {
            return false;
        }
        if p < nv {
            continue;
        }
        let i = p - nv;
        let ops = spec.operands(i);
        match spec.nodes[i] {
            NodeSpec::U(UnOp::Rand, _) if ops.iter().any(|o| vals[*o] == 0.0) => return false,
            NodeSpec::B(BinOp::Atan2 | BinOp::Mix, _, _)
                if ops.iter().any(|o| vals[*o] == 0.0) =>
            {
                return false
            }
            _ => {}
        }
        stack.extend(ops);
    }
    true
}

const UN_NAMES: [(&str, UnOp); 18] = [
    ("neg", UnOp::Neg),
    ("abs", UnOp::Abs),
    ("recip", UnOp::Recip),
    ("sqrt", UnOp::Sqrt),
    ("square", UnOp::Square),
    ("floor", UnOp::Floor),
    ("ceil", UnOp::Ceil),
    ("round", UnOp::Round),
    ("sin", UnOp::Sin),
    ("cos", UnOp::Cos),
    ("tan", UnOp::Tan),
    ("asin", UnOp::Asin),
    ("acos", UnOp::Acos),
    ("atan", UnOp::Atan),
    ("exp", UnOp::Exp),
    ("ln", UnOp::Ln),
    ("not", UnOp::Not),
    ("rand", UnOp::Rand),
];
const BIN_NAMES: [(&str, BinOp); 12] = [
    ("add", BinOp::Add),
    ("sub", BinOp::Sub),
    ("mul", BinOp::Mul),
    ("div", BinOp::Div),
    ("atan2", BinOp::Atan2),
    ("min", BinOp::Min),
    ("max", BinOp::Max),
    ("compare", BinOp::Compare),
    ("mod", BinOp::Mod),
    ("and", BinOp::And),
    ("or", BinOp::Or),
    ("mix", BinOp::Mix),
];

/// The text format of `Context::from_text`; None if the spec cannot be
/// expressed (free variables, `recip` has no opcode there)
fn to_text(spec: &DagSpec) -> Option<String> {
    if spec.nvars > 3 || spec.nvars == 0 {
        return None;
    }
    let mut s = String::new();
    let names = ["var-x", "var-y", "var-z"];
    for i in 0..spec.nvars as usize {
        s += &format!("p{i} {}\n", names[i]);
    }
    let nv = spec.nvars as usize;
    for (i, n) in spec.nodes.iter().enumerate() {
        let ops = spec.operands(i);
        let id = nv + i;
        match *n {
            NodeSpec::C(f) => {
                if f.0.is_nan() && f.0.to_bits() != f32::NAN.to_bits() {
                    return None;
                }
                s += &format!("p{id} const {:?}\n", f.0)
            }
            NodeSpec::U(op, _) => {
                if op == UnOp::Recip {
                    return None;
                }
                let name = UN_NAMES.iter().find(|(_, o)| *o == op).unwrap().0;
                s += &format!("p{id} {name} p{}\n", ops[0]);
            }
            NodeSpec::B(op, _, _) => {
                let name = BIN_NAMES.iter().find(|(_, o)| *o == op).unwrap().0;
                s += &format!("p{id} {name} p{} p{}\n", ops[0], ops[1]);
            }
        }
    }
    Some(s)
}

fn hash_of<T: Hash>(t: &T) -> u64 {
    let mut h = std::collections::hash_map::DefaultHasher::new();
    t.hash(&mut h);
    h.finish()
}

fn build_into(ctx: &mut Context, spec: &DagSpec) -> Vec<Node> {
    let mut pool: Vec<Node> = (0..spec.nvars as usize)
        .map(|i| ctx.var(spec_var(i)))
        .collect();
    for n in &spec.nodes {
        let node = if pool.is_empty() {
            match n {
                NodeSpec::C(f) => ctx.constant(f.0),
                _ => ctx.constant(0.5),
            }
        } else {
            match *n {
                NodeSpec::C(f) => ctx.constant(f.0),
                NodeSpec::U(op, a) => {
                    let a = pool[sel_index(a, pool.len())];
                    ctx_unary(ctx, op, a)
                }
                NodeSpec::B(op, a, b) => {
                    let (a, b) = (pool[sel_index(a, pool.len())], pool[sel_index(b, pool.len())]);
                    ctx_binary(ctx, op, a, b)
                }
            }
        };
        pool.push(node);
    }
    pool
}

fn meaning(dag: &DagSpec, points: &[Vec<Fl>], mutate: u16, case: &Case, cx: &mut Cx) -> CheckResult {
    let nv = dag.nvars as usize;
    let plen = nv + dag.nodes.len();
    let root = plen - 1;
    // (a) context constructors
    let mut ctx = Context::new();
    let pool_a = build_into(&mut ctx, dag);
    let len_after_first = ctx.len();
    // building the same expression twice yields the same nodes
    let pool_a2 = build_into(&mut ctx, dag);
    ensure!(
        pool_a == pool_a2,
        "rebuild-differs",
        "building the same expression twice gave different nodes"
    );
    ensure!(
        ctx.len() == len_after_first,
        "rebuild-grows-context",
        "building the same expression again added {} nodes",
        ctx.len() - len_after_first
    );
    // (b) trees + import (into the same context: must give the same node)
    let trees = build_trees(dag);
    let mut ctx_b = Context::new();
    let node_b = ctx_b.import(&trees[root]);
    // (c) text format
    let text = to_text(dag);
    let from_text = text
        .as_ref()
        .map(|t| Context::from_text(t.as_bytes()).map_err(|e| Fail::new("from-text-error", format!("{e:?}\n{t}"))))
        .transpose()?;

    // import(export(n)) == n
    let exported = ctx
        .export(pool_a[root])
        .map_err(|e| Fail::new("export-error", format!("{e:?}")))?;
    let back = ctx.import(&exported);
    ensure!(
        back == pool_a[root],
        "import-export-roundtrip",
        "import(export(n)) gave a different node: {:?} vs {:?}",
        ctx.get_op(back),
        ctx.get_op(pool_a[root])
    );

    // structural equality and hashing of separately allocated trees
    // (built through the sibling forms of the Tree API: tree op f32, f32 op
    // tree, op-assign, From<f32> / From<i32>)
    let trees2 = build_trees_forms(dag, true);
    ensure!(
        trees[root] == trees2[root],
        "tree-eq",
        "two separately built trees of one expression compare unequal"
    );
    ensure!(
        hash_of(&trees[root]) == hash_of(&trees2[root]),
        "tree-hash",
        "structurally equal trees hash differently"
    );
    // Eq => equal hashes, also for constants that compare equal without being
    // bit-identical (zeros of opposite sign, NaNs with different payloads)
    {
        let mut d3 = dag.clone();
        let mut changed = false;
        for n in d3.nodes.iter_mut() {
            if let NodeSpec::C(f) = n {
                if f.0 == 0.0 {
                    *f = Fl(-f.0);
                    changed = true;
                } else if f.0.is_nan() {
                    *f = Fl(f32::from_bits(f.0.to_bits() ^ 0x8000_0001));
                    changed = true;
                }
            }
        }
        if changed {
            let t4 = build_trees(&d3);
            cx.ev.count("equal_but_not_bit_identical_constant_variants");
            if trees[root] == t4[root] {
                cx.ev.count("variants_comparing_equal");
                ensure!(
                    hash_of(&trees[root]) == hash_of(&t4[root]),
                    "tree-hash-eq-law",
                    "two trees compare equal (constants differ only in the sign of a zero or a NaN payload) but hash differently"
                );
                // equal trees import to the same node
                let mut c2 = Context::new();
                let a = c2.import(&trees[root]);
                let b2 = c2.import(&t4[root]);
                ensure!(
                    a == b2,
                    "equal-trees-import-differently",
                    "two trees that compare equal import to different nodes"
                );
            }
        }
    }
    // a mutated expression must differ (if the mutated node is reachable)
    {
        let mi = sel_index(mutate, dag.nodes.len());
        let mut d2 = dag.clone();
        d2.nodes[mi] = match d2.nodes[mi] {
            NodeSpec::C(f) => NodeSpec::C(Fl(if f.0 == 7.25 { 7.5 } else { 7.25 })),
            NodeSpec::U(op, a) => NodeSpec::U(if op == UnOp::Neg { UnOp::Abs } else { UnOp::Neg }, a),
            NodeSpec::B(op, a, b) => {
                NodeSpec::B(if op == BinOp::Sub { BinOp::Div } else { BinOp::Sub }, a, b)
            }
        };
        // reachable?
        let (pr, _) = dag.prune(&[root]);
        let reach = {
            // node mi is kept iff pruning at root keeps it: compare by count of
            // kept nodes when mi is also forced
            let (pr2, _) = dag.prune(&[root, nv + mi]);
            pr2.nodes.len() == pr.nodes.len()
        };
        if reach && !(nv == 0 && mi == 0 && !matches!(dag.nodes[0], NodeSpec::C(_))) {
            let t3 = build_trees(&d2);
            cx.ev.count("mutated_tree_comparisons");
            ensure!(
                trees[root] != t3[root],
                "tree-eq-too-coarse",
                "a tree and its mutation (node {mi}) compare equal"
            );
            // the same mutation, but every untouched sub-tree is the SAME
            // allocation in both trees: pointer-equality shortcuts inside the
            // comparison must not end it early
            if nv + mi > 0 && !dag.nodes.is_empty() {
                let t5 = build_trees_sharing(&d2, &trees, mi);
                cx.ev.count("mutated_tree_comparisons_with_shared_subtrees");
                ensure!(
                    trees[root] != t5[root] && t5[root] != trees[root],
                    "tree-eq-too-coarse",
                    "a tree and its mutation (node {mi}) compare equal when their common sub-trees are shared by pointer"
                );
                ensure!(
                    t5[root] == t3[root],
                    "tree-eq",
                    "the mutated tree built with shared sub-trees differs from the one built from scratch"
                );
            }
        }
    }

    // values
    let mut decisive_evals = 0;
    for p in points {
        let vals = ref_values(dag, p);
        if !decisive(dag, &vals, root) {
            cx.ev.count("evaluations_skipped_not_finite_or_sign_sensitive");
            continue;
        }
        decisive_evals += 1;
        let want = vals[root];
        let vars: HashMap<Var, f32> = (0..nv).map(|i| (spec_var(i), p[i].0)).collect();
        let mut routes: Vec<(&str, f32)> = vec![];
        routes.push(("constructors", ctx.eval(pool_a[root], &vars).unwrap()));
        routes.push(("tree-import", ctx_b.eval(node_b, &vars).unwrap()));
        if let Some((c, n)) = &from_text {
            routes.push(("from_text", c.eval(*n, &vars).unwrap()));
        }
        // every node of the expression, not only the root: a rewrite deep
        // inside is not masked by the operations above it.  One forward pass
        // of the same "decisive" rule
        {
            let mut dec = vec![true; plen];
            for q in 0..plen {
                let mut d = vals[q].is_finite();
                if q >= nv {
                    let ops = dag.operands(q - nv);
                    d &= ops.iter().all(|o| dec[*o]);
                    match dag.nodes[q - nv] {
                        NodeSpec::U(UnOp::Rand, _) if ops.iter().any(|o| vals[*o] == 0.0) => d = false,
                        NodeSpec::B(BinOp::Atan2 | BinOp::Mix, _, _) if ops.iter().any(|o| vals[*o] == 0.0) => {
                            d = false
                        }
                        _ => {}
                    }
                }
                dec[q] = d;
            }
            for q in nv..plen {
                if !dec[q] {
                    continue;
                }
                cx.ev.count("decisive_inner_node_comparisons");
                let got = ctx.eval(pool_a[q], &vars).unwrap();
                if !(got == vals[q]) {
                    fail!(
                        "meaning-constructors",
                        "built through constructors: inner node {} evaluates to {} but the un-rewritten expression gives {} at {:?} ({:?})",
                        q - nv,
                        fl_to_string(got),
                        fl_to_string(vals[q]),
                        &p[..nv],
                        ctx.get_op(pool_a[q])
                    );
                }
            }
        }
        for (name, got) in routes {
            cx.ev.count("decisive_value_comparisons");
            if !(got == want) {
                fail!(
                    format!("meaning-{name}"),
                    "built through {name}: evaluates to {} but the un-rewritten expression gives {} at {:?} (root {:?})",
                    fl_to_string(got),
                    fl_to_string(want),
                    &p[..nv],
                    ctx.get_op(pool_a[root])
                );
            }
        }
    }
    // non-trivial: some constructor rewrite fired and the result is not a constant
    let (pruned, _) = dag.prune(&[root]);
    let reachable_ctx = topo(&ctx, &[pool_a[root]]).len();
    let distinct_ast = pruned.nodes.len() + nv.min(reachable_ctx);
    let rewritten = reachable_ctx < distinct_ast;
    if rewritten {
        cx.ev.count("cases_with_constructor_rewrites");
    }
    if rewritten && decisive_evals > 0 && !matches!(ctx.get_op(pool_a[root]), Some(Op::Const(..))) {
        cx.ev.nontrivial(case);
    }
    Ok(())
}

/// Deep expressions: must be buildable, comparable, hashable, importable and
/// droppable on a 2 MiB stack (a stack overflow kills the worker process and is
/// reported by the parent)
fn deep(kind: u8, depth: u32, case: &Case, cx: &mut Cx) -> CheckResult {
    let r = std::thread::Builder::new()
        .stack_size(2 * 1024 * 1024)
        .spawn(move || -> Result<(), String> {
            let build = || -> Tree {
                let (x, y, z) = Tree::axes();
                let mut t = x.clone();
                for i in 0..depth {
                    t = match kind % 8 {
                        // both operands are the SAME allocation: the child's only
                        // other owner is the node itself
                        6 => t.clone() + t,
                        7 => {
                            if i % 2 == 0 {
                                t.clone().min(t)
                            } else {
                                t.clone() * t
                            }
                        }
                        0 => t + 1.0,
                        1 => Tree::constant(1.0) - t,
                        2 => {
                            if i % 2 == 0 {
                                t.sin()
                            } else {
                                t.abs()
                            }
                        }
                        3 => t.remap_xyz(y.clone(), z.clone(), x.clone()),
                        4 => y.remap_xyz(t, z.clone(), x.clone()),
                        _ => match i % 4 {
                            0 => t.max(y.clone()),
                            1 => (z.clone() * 0.5).min(t),
                            2 => t.neg(),
                            _ => t.remap_xyz(x.clone() + 1.0, y.clone(), z.clone()),
                        },
                    };
                }
                t
            };
            let a = build();
            if kind % 8 >= 6 {
                // a chain whose two operands are one allocation is a DAG with
                // 2^depth paths: comparing or hashing two separately built
                // copies walks all of them (a matter of time, not of stack, and
                // outside the claim).  Build, compare with a clone (pointer
                // shortcut), import (cached by pointer), export, drop.
                let c = a.clone();
                if a != c {
                    return Err("a deep tree differs from its clone".into());
                }
                let mut ctx = Context::new();
                let na = ctx.import(&a);
                if ctx.import(&c) != na {
                    return Err("importing a clone of a deep tree gave a different node".into());
                }
                drop(c);
                drop(a);
                return Ok(());
            }
            let b = build();
            if a != b {
                return Err("deep trees of the same expression compare unequal".into());
            }
            if hash_of(&a) != hash_of(&b) {
                return Err("deep trees of the same expression hash differently".into());
            }
            let mut ctx = Context::new();
            let na = ctx.import(&a);
            let nb = ctx.import(&b);
            if na != nb {
                return Err("importing equal deep trees gave different nodes".into());
            }
            // (Context::eval is recursive and documented as a slow debugging
            // aid; it is not part of the deep-expression claim)
            let e = ctx.export(na).map_err(|e| format!("{e:?}"))?;
            let n2 = ctx.import(&e);
            if n2 != na {
                return Err("import(export(n)) != n for a deep expression".into());
            }
            drop(e);
            drop(a);
            drop(b);
            Ok(())
        })
        .unwrap()
        .join();
    match r {
        Ok(Ok(())) => {
            cx.ev.count(&format!("deep_kind_{}", kind % 8));
            cx.ev.nontrivial(case);
            Ok(())
        }
        Ok(Err(m)) => fail!("deep-expression", "kind {kind} depth {depth}: {m}"),
        Err(_) => fail!("deep-expression-panic", "kind {kind} depth {depth}: panicked: {}", take_last_panic()),
    }
}

impl Prop for P {
    const ID: &'static str = "C12";
    type Case = Case;

    fn strategy(tier: Tier) -> BoxedStrategy<Case> {
        let mut p = gens::DagParams::all(tier.pick(30, 80));
        p.min_vars = 0;
        p.max_vars = 4;
        p.w_const = 6;
        p.consts = prop_oneof![
            4 => gens::fl_special(),
            3 => gens::fl_grid(),
            2 => gens::fl_uniform(-3.0, 3.0),
            1 => gens::fl_any(),
        ]
        .boxed();
        // a second mix aimed at the algebraic rewrites themselves: short
        // programs over negation, the four arithmetic operations, abs, square,
        // sqrt, recip, min, max and the constants the identities mention, so
        // that every pair "operation applied to the result of an operation"
        // occurs often
        let mut pa = gens::DagParams::all(tier.pick(10, 16));
        pa.min_vars = 1;
        pa.max_vars = 3;
        pa.w_const = 4;
        for (w, o) in pa.un.iter_mut() {
            *w = match o {
                UnOp::Neg => 8,
                UnOp::Abs | UnOp::Square => 4,
                UnOp::Sqrt | UnOp::Recip => 3,
                UnOp::Not => 2,
                _ => 0,
            };
        }
        pa.un.retain(|(w, _)| *w > 0);
        for (w, o) in pa.bin.iter_mut() {
            *w = match o {
                BinOp::Add | BinOp::Sub | BinOp::Mul => 8,
                BinOp::Div => 4,
                BinOp::Min | BinOp::Max | BinOp::And | BinOp::Or => 3,
                _ => 0,
            };
        }
        pa.bin.retain(|(w, _)| *w > 0);
        pa.consts = prop_oneof![
            6 => prop_oneof![Just(Fl(0.0)), Just(Fl(-0.0)), Just(Fl(1.0)), Just(Fl(-1.0)), Just(Fl(2.0)), Just(Fl(0.5)), Just(Fl(-2.0))],
            2 => gens::fl_grid(),
            1 => gens::fl_special(),
        ]
        .boxed();
        let meaning = (
            prop_oneof![3 => gens::dag(p), 2 => gens::dag(pa)],
            gens::points(1..=6, prop_oneof![3 => gens::fl_moderate(), 2 => gens::fl_special(), 1 => gens::fl_any()].boxed()),
            any::<u16>(),
        )
            .prop_map(|(dag, points, mutate)| Case::Meaning {
                dag,
                points,
                mutate,
            });
        let deep = (0u8..8, 20_000u32..=tier.pick(60_000, 300_000))
            .prop_map(|(kind, depth)| Case::Deep { kind, depth });
        prop_oneof![400 => meaning, 1 => deep].boxed()
    }

    fn fixed_cases(tier: Tier) -> Vec<Case> {
        let d = tier.pick(200_000, 1_000_000);
        (0..8).map(|kind| Case::Deep { kind, depth: d }).collect()
    }

    fn check(case: &Case, cx: &mut Cx) -> CheckResult {
        match case {
            Case::Meaning {
                dag,
                points,
                mutate,
            } => {
                if dag.nodes.is_empty() {
                    return Ok(());
                }
                meaning(dag, points, *mutate, case, cx)
            }
            Case::Deep { kind, depth } => deep(*kind, *depth, case, cx),
        }
    }

    fn reduce(case: &Case) -> Vec<Case> {
        let mut out = vec![];
        if let Case::Meaning {
            dag,
            points,
            mutate,
        } = case
        {
            if points.len() > 1 {
                for p in points {
                    out.push(Case::Meaning {
                        dag: dag.clone(),
                        points: vec![p.clone()],
                        mutate: *mutate,
                    });
                }
            }
            let nv = dag.nvars as usize;
            let (d2, _) = dag.prune(&[nv + dag.nodes.len() - 1]);
            if d2.nodes.len() < dag.nodes.len() && !d2.nodes.is_empty() {
                out.push(Case::Meaning {
                    dag: d2,
                    points: points.clone(),
                    mutate: *mutate,
                });
            }
        }
        out
    }

    fn plan(tier: Tier) -> Plan {
        match tier {
            Tier::Quick => Plan {
                workers: 16,
                cases_per_worker: 8000,
                timeout_s: 1800,
                max_shrink_iters: 2000,
            },
            Tier::Thorough => Plan {
                workers: 16,
                cases_per_worker: 300000,
                timeout_s: 14400,
                max_shrink_iters: 2000,
            },
        }
    }

    fn rule() -> &'static str {
        "generated expressions with sharing (all opcodes; constants mostly from the special pool 0, -0, +-1, 2, inf, NaN, \
         denormals, halves; operands repeated so that a op a rewrites fire; 0-4 variables) x 1-6 assignments. Oracle: the \
         expression is evaluated un-rewritten, operation by operation, by the independent reference semantics; when every \
         intermediate is finite and no zero reaches atan2 / rand / mix, Context::eval of the node built (a) through the \
         Context constructors, (b) through Tree operators + import, (c) through the text format + from_text must be == to \
         it. Structural: building twice gives the same nodes and adds none; import(export(n)) == n; two separately \
         allocated trees of one expression are == and hash equal and differ from a one-node mutation. Deep: expressions \
         of depth 2e4..1e6 (left-deep, right-deep, unary, remap_xyz target and axis chains, mixed, and chains whose two operands are one allocation) are built, compared, \
         hashed, imported, exported and dropped on a 2 MiB stack. Non-trivial (Meaning) = the context has fewer reachable \
         nodes than the expression (a rewrite fired), at least one decisive evaluation, result not a constant."
    }

    fn assumptions() -> Vec<&'static str> {
        vec!["the reference semantics (refsem) is the meaning of an un-rewritten expression; host libm"]
    }
}
