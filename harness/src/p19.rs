//! C19 — the constraint solver honours fixed parameters and solves solvable systems
use crate::build::*;
use crate::engine::*;

use crate::{ensure, fail};
use fidget_core::context::Context;
use fidget_core::eval::MathFunction;
use fidget_core::var::Var;
use fidget_core::vm::VmFunction;
use fidget_jit::JitFunction;
use fidget_solver::{Parameter, solve};
use proptest::collection::vec;
use proptest::prelude::*;
use serde::{Deserialize, Serialize};
use std::collections::HashMap;

#[derive(Clone, Debug, Serialize, Deserialize)]
pub struct Case {
    /// number of unknowns / equations
    pub n: u8,
    /// off-diagonal coefficients (sixteenths), row-major n x n, 0 = variable
    /// not used by that equation
    pub off: Vec<i8>,
    /// the known solution (quarters)
    pub sol: Vec<i8>,
    /// which parameters are fixed (at their solution values)
    pub fixed: Vec<bool>,
    /// start values of the free parameters (quarters)
    pub start: Vec<i8>,
    /// start exactly at the solution with integer data (must be returned unchanged)
    pub exact: bool,
    /// use X, Y, Z as the first three variables
    pub xyz: bool,
    /// every equation mentions every parameter (no absent coefficients)
    #[serde(default)]
    pub dense: bool,
    /// per equation: where the sum of terms starts (mod n) and, in the top bit,
    /// whether it runs backwards — equations over the same variables then meet
    /// them in different orders, so their tapes number the variables differently
    #[serde(default)]
    pub term_order: Vec<u8>,
}

/// residual tolerance relative to 1 + max |b|
const RES_TOL: f64 = 2e-5;

pub struct P;

fn var_of(case: &Case, i: usize) -> Var {
    if case.xyz && i < 3 {
        [Var::X, Var::Y, Var::Z][i]
    } else {
        var_v(3000 + i as u64 * 7)
    }
}

struct System {
    a: Vec<Vec<f64>>,
    b: Vec<f64>,
    x: Vec<f64>,
}

fn system(case: &Case) -> System {
    let n = case.n as usize;
    let mut a = vec![vec![0.0; n]; n];
    let unit = if case.exact { 1.0 } else { 1.0 / 16.0 };
    for i in 0..n {
        let mut s = 0.0f64;
        for j in 0..n {
            if i != j {
                let k = case.off[(i * n + j) % case.off.len()];
                // roughly 60% of the off-diagonal entries are absent
                let v = if case.dense {
                    (if k == 0 { 1 } else { k }) as f64 * unit
                } else if k % 5 < 3 {
                    0.0
                } else {
                    k as f64 * unit
                };
                a[i][j] = v;
                s += v.abs();
            }
        }
        // strongly diagonally dominant => well conditioned
        a[i][i] = (2.0 * s + 1.0).ceil();
    }
    let x: Vec<f64> = (0..n)
        .map(|i| {
            let k = case.sol[i % case.sol.len()] as f64;
            if case.exact { k } else { k / 4.0 }
        })
        .collect();
    let b: Vec<f64> = (0..n).map(|i| (0..n).map(|j| a[i][j] * x[j]).sum()).collect();
    System { a, b, x }
}

fn run<F: MathFunction>(case: &Case, sys: &System) -> Result<(HashMap<Var, f32>, HashMap<Var, Parameter>), Fail> {
    let n = case.n as usize;
    let mut ctx = Context::new();
    let mut eqs = vec![];
    for i in 0..n {
        let mut acc = ctx.constant(-(sys.b[i] as f32));
        let ord = case.term_order.get(i % case.term_order.len().max(1)).copied().unwrap_or(0);
        for t in 0..n {
            let j = if ord & 128 != 0 {
                (ord as usize + n - t % n) % n
            } else {
                (ord as usize + t) % n
            };
            if sys.a[i][j] != 0.0 {
                let v = ctx.var(var_of(case, j));
                let t = ctx.mul(v, sys.a[i][j] as f32).unwrap();
                acc = ctx.add(acc, t).unwrap();
            }
        }
        eqs.push(F::new(&ctx, &[acc]).unwrap());
    }
    let mut params = HashMap::new();
    for j in 0..n {
        let fixed = case.fixed[j % case.fixed.len()];
        let p = if fixed {
            Parameter::Fixed(sys.x[j] as f32)
        } else if case.exact {
            Parameter::Free(sys.x[j] as f32)
        } else {
            Parameter::Free(case.start[j % case.start.len()] as f32 / 4.0)
        };
        params.insert(var_of(case, j), p);
    }
    let sol = solve(&eqs, &params).map_err(|e| Fail::new("solver-error", format!("{e}")))?;
    Ok((sol, params))
}

fn judge(case: &Case, sys: &System, what: &str, sol: &HashMap<Var, f32>, params: &HashMap<Var, Parameter>, cx: &mut Cx) -> CheckResult {
    let n = case.n as usize;
    // exactly the free parameters
    for (v, p) in params {
        match p {
            Parameter::Free(_) => ensure!(
                sol.contains_key(v),
                format!("missing-free-{what}"),
                "{what}: free parameter {v:?} is missing from the solution"
            ),
            Parameter::Fixed(_) => ensure!(
                !sol.contains_key(v),
                format!("fixed-returned-{what}"),
                "{what}: fixed parameter {v:?} appears in the solution"
            ),
        }
    }
    ensure!(
        sol.keys().all(|k| params.contains_key(k)),
        format!("unknown-key-{what}"),
        "{what}: solution has a key that is not a parameter"
    );
    // residual with fixed values substituted
    let val = |j: usize| -> f64 {
        match params[&var_of(case, j)] {
            Parameter::Fixed(f) => f as f64,
            Parameter::Free(_) => sol[&var_of(case, j)] as f64,
        }
    };
    let bmax = sys.b.iter().map(|v| v.abs()).fold(0.0, f64::max);
    let mut worst = 0.0f64;
    for i in 0..n {
        let r: f64 = (0..n).map(|j| sys.a[i][j] * val(j)).sum::<f64>() - sys.b[i];
        worst = worst.max(r.abs());
    }
    // "small residual": a few tens of f32 rounding errors of the system's own
    // magnitude (the largest observed on the unchanged tree is below
    // 1e-6 (1 + |b|); see max_residual_over_tolerance_x1000 in the evidence)
    cx.ev.max(
        "max_residual_over_tolerance_x1000",
        (1000.0 * worst / (RES_TOL * (1.0 + bmax))) as u64,
    );
    if !(worst <= RES_TOL * (1.0 + bmax)) {
        fail!(
            format!("residual-{what}"),
            "{what}: residual {worst:e} for a diagonally dominant {n}x{n} system (|b| <= {bmax}); fixed {:?}",
            (0..n).map(|j| case.fixed[j % case.fixed.len()]).collect::<Vec<_>>()
        );
    }
    if case.exact {
        for (v, p) in params {
            if let Parameter::Free(s) = p {
                ensure!(
                    sol[v].to_bits() == s.to_bits(),
                    format!("exact-start-moved-{what}"),
                    "{what}: every equation is exactly satisfied at the start, but {v:?} moved from {s} to {}",
                    sol[v]
                );
            }
        }
    }
    Ok(())
}

impl Prop for P {
    const ID: &'static str = "C19";
    type Case = Case;

    fn strategy(_tier: Tier) -> BoxedStrategy<Case> {
        (
            prop_oneof![5 => 1u8..=7, 3 => 8u8..=16, 2 => 17u8..=40],
            vec(-16i8..=16, 64..=200),
            vec(-12i8..=12, 40..=40),
            vec(prop::bool::weighted(0.3), 40..=40),
            vec(-20i8..=20, 40..=40),
            prop::bool::weighted(0.15),
            any::<bool>(),
            prop::bool::weighted(0.25),
            prop_oneof![1 => Just(vec![]), 2 => vec(any::<u8>(), 1..=40)],
        )
            .prop_map(|(n, off, sol, mut fixed, start, exact, xyz, dense, term_order)| {
                // at least one free parameter
                let nn = n as usize;
                if (0..nn).all(|j| fixed[j % fixed.len()]) {
                    fixed[0] = false;
                }
                Case {
                    n,
                    off,
                    sol,
                    fixed,
                    start,
                    exact,
                    xyz,
                    dense,
                    term_order,
                }
            })
            .boxed()
    }

    fn check(case: &Case, cx: &mut Cx) -> CheckResult {
        let n = case.n as usize;
        if (0..n).all(|j| case.fixed[j % case.fixed.len()]) {
            // the property quantifies over systems with at least one unknown
            return Ok(());
        }
        let sys = system(case);
        let (sv, pv) = run::<VmFunction>(case, &sys)?;
        judge(case, &sys, "vm", &sv, &pv, cx)?;
        let (sj, pj) = run::<JitFunction>(case, &sys)?;
        judge(case, &sys, "jit", &sj, &pj, cx)?;
        for (v, a) in &sv {
            let b = sj[v];
            ensure!(
                (a - b).abs() <= 1e-4 * (1.0 + a.abs()),
                "backends-disagree",
                "{v:?}: interpreter {a} vs JIT {b}"
            );
        }
        let nfree = (0..n).filter(|j| !case.fixed[j % case.fixed.len()]).count();
        cx.ev.count(&format!("free_mod3_{}", nfree % 3));
        if case.exact {
            cx.ev.count("exact_start_cases");
        }
        if case.dense {
            cx.ev.count("dense_systems_every_equation_uses_every_parameter");
        }
        if !case.term_order.is_empty() {
            cx.ev.count("equations_with_permuted_term_order");
        }
        let omits = (0..n).any(|i| (0..n).any(|j| sys.a[i][j] == 0.0 && !case.fixed[j % case.fixed.len()]));
        if nfree % 3 != 0 && nfree < n && omits {
            cx.ev.nontrivial(case);
        }
        Ok(())
    }

    fn plan(tier: Tier) -> Plan {
        match tier {
            Tier::Quick => Plan {
                workers: 16,
                cases_per_worker: 300,
                timeout_s: 1800,
                max_shrink_iters: 300,
            },
            Tier::Thorough => Plan {
                workers: 16,
                cases_per_worker: 15000,
                timeout_s: 14400,
                max_shrink_iters: 300,
            },
        }
    }

    fn rule() -> &'static str {
        "generated consistent linear systems A x = b with n = 1..=40 unknowns and n equations: off-diagonal coefficients \
         k/16 with about 60% absent (each equation uses its own subset of the variables), diagonal = ceil(2 * row sum + 1) \
         (strongly diagonally dominant, hence well conditioned), a known solution k/4, a generated ~30% subset of the \
         parameters Fixed at their solution values (at least one stays free), the rest Free from generated starts; 15% of \
         the cases use integer data and start exactly at the solution; variables are X, Y, Z or arbitrary Var::V; a quarter of the systems are dense (every equation mentions every \
         parameter); two thirds sum each equation's terms from its own starting variable, forwards or backwards, so that tapes \
         over the same variables number them differently; both \
         back ends. Oracle: the result has a value for exactly the free parameters; the residual of the ORIGINAL system \
         with fixed values substituted is <= 2e-5 (1 + |b|); exact-start systems return the start bit-for-bit; the two \
         back ends agree to 1e-4. Non-trivial = the number of free parameters is not a multiple of three, at least one \
         parameter is fixed, and some equation omits a free variable."
    }
}
