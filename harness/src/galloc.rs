//! Guard-page allocator: while a thread is inside `with_guard`, every heap
//! allocation it makes is served from a reserved address range with the block
//! flush against a PROT_NONE page (at its end, or at its start).  Evaluator
//! objects created and used inside such a section therefore have their output
//! arrays, choice arrays, pointer tables and scratch lanes bounded by
//! inaccessible pages: a native (JIT) load or store one element outside them
//! faults deterministically instead of landing in a neighbouring heap block.
//! Blocks of up to one page come from a pool of pre-made [data page][guard
//! page] slots (no system call per allocation); larger blocks are carved from
//! the reservation, go back to PROT_NONE when freed and their addresses are
//! never reused.  Outside such sections the system allocator is used
//! unchanged.
use std::alloc::{GlobalAlloc, Layout, System};
use std::cell::Cell;
use std::sync::atomic::{AtomicUsize, Ordering};

pub struct GuardAlloc;

const PAGE: usize = 4096;
/// reserved address space (never committed as a whole)
const REGION_LEN: usize = 1 << 37;

static REGION: AtomicUsize = AtomicUsize::new(0);
static NEXT: AtomicUsize = AtomicUsize::new(PAGE);
pub static GUARDED_ALLOCS: AtomicUsize = AtomicUsize::new(0);
pub static FALLBACKS: AtomicUsize = AtomicUsize::new(0);

/// pool of single-page slots: slot i = pages [2i] (data) and [2i+1] (guard) of
/// the pool mapping
const SLOTS: usize = 4096;
static POOL: AtomicUsize = AtomicUsize::new(0);
static POOL_LOCK: std::sync::atomic::AtomicBool = std::sync::atomic::AtomicBool::new(false);
static mut FREE: [u16; SLOTS] = [0; SLOTS];
static mut NFREE: usize = 0;

fn lock() {
    while POOL_LOCK
        .compare_exchange_weak(false, true, Ordering::Acquire, Ordering::Relaxed)
        .is_err()
    {
        std::hint::spin_loop();
    }
}
fn unlock() {
    POOL_LOCK.store(false, Ordering::Release);
}

/// (called with the lock held)
unsafe fn pool_init() -> usize {
    unsafe {
        // one leading guard page, then SLOTS x (data, guard)
        let len = (2 * SLOTS + 1) * PAGE;
        let p = libc::mmap(
            std::ptr::null_mut(),
            len,
            libc::PROT_READ | libc::PROT_WRITE,
            libc::MAP_PRIVATE | libc::MAP_ANONYMOUS | libc::MAP_NORESERVE,
            -1,
            0,
        );
        if p as isize == -1 {
            POOL.store(1, Ordering::Release);
            return 1;
        }
        let base = p as usize;
        libc::mprotect(base as *mut _, PAGE, libc::PROT_NONE);
        for i in 0..SLOTS {
            libc::mprotect((base + (2 * i + 2) * PAGE) as *mut _, PAGE, libc::PROT_NONE);
            FREE[i] = i as u16;
        }
        NFREE = SLOTS;
        POOL.store(base, Ordering::Release);
        base
    }
}

unsafe fn pool_alloc(rsize: usize, m: u8, zero: bool) -> *mut u8 {
    unsafe {
        lock();
        let mut base = POOL.load(Ordering::Acquire);
        if base == 0 {
            base = pool_init();
        }
        if base == 1 || NFREE == 0 {
            unlock();
            return std::ptr::null_mut();
        }
        NFREE -= 1;
        let slot = FREE[NFREE] as usize;
        unlock();
        let page = base + (2 * slot + 1) * PAGE;
        let p = if m == 1 { page + PAGE - rsize } else { page } as *mut u8;
        if zero {
            std::ptr::write_bytes(p, 0, rsize);
        }
        GUARDED_ALLOCS.fetch_add(1, Ordering::Relaxed);
        p
    }
}

fn in_pool(p: *mut u8) -> bool {
    let b = POOL.load(Ordering::Acquire);
    b > 1 && (p as usize) >= b && (p as usize) < b + (2 * SLOTS + 1) * PAGE
}

/// true if `p` was served by the guard-page allocator
pub fn is_guarded(p: *const u8) -> bool {
    in_pool(p as *mut u8) || in_region(p as *mut u8)
}

unsafe fn pool_free(p: *mut u8) {
    unsafe {
        let b = POOL.load(Ordering::Acquire);
        let slot = ((p as usize - b) / PAGE - 1) / 2;
        lock();
        FREE[NFREE] = slot as u16;
        NFREE += 1;
        unlock();
    }
}

thread_local! {
    /// 0 = off, 1 = block ends at a guard page, 2 = block starts after one
    static MODE: Cell<u8> = const { Cell::new(0) };
}

fn mode() -> u8 {
    MODE.try_with(|m| m.get()).unwrap_or(0)
}

/// Runs `f` with guard-page allocation on this thread.
pub fn with_guard<R>(at_end: bool, f: impl FnOnce() -> R) -> R {
    struct Reset(u8);
    impl Drop for Reset {
        fn drop(&mut self) {
            let _ = MODE.try_with(|m| m.set(self.0));
        }
    }
    let _r = Reset(mode());
    MODE.with(|m| m.set(if at_end { 1 } else { 2 }));
    f()
}

fn region() -> usize {
    let r = REGION.load(Ordering::Acquire);
    if r != 0 {
        return r;
    }
    unsafe {
        let p = libc::mmap(
            std::ptr::null_mut(),
            REGION_LEN,
            libc::PROT_NONE,
            libc::MAP_PRIVATE | libc::MAP_ANONYMOUS | libc::MAP_NORESERVE,
            -1,
            0,
        );
        if p as isize == -1 {
            return 0;
        }
        match REGION.compare_exchange(0, p as usize, Ordering::AcqRel, Ordering::Acquire) {
            Ok(_) => p as usize,
            Err(other) => {
                libc::munmap(p, REGION_LEN);
                other
            }
        }
    }
}

fn in_region(p: *mut u8) -> bool {
    let r = REGION.load(Ordering::Acquire);
    r != 0 && (p as usize) >= r && (p as usize) < r + REGION_LEN
}

unsafe fn guarded_alloc(layout: Layout, m: u8, zero: bool) -> *mut u8 {
    let align = layout.align();
    if align > PAGE {
        return std::ptr::null_mut();
    }
    {
        let size = layout.size().max(1);
        let rsize = size.div_ceil(align) * align;
        if rsize <= PAGE {
            let p = unsafe { pool_alloc(rsize, m, zero) };
            if !p.is_null() {
                return p;
            }
        }
    }
    let r = region();
    if r == 0 {
        return std::ptr::null_mut();
    }
    let size = layout.size().max(1);
    let rsize = size.div_ceil(align) * align;
    let data_pages = rsize.div_ceil(PAGE);
    let total = (data_pages + 1) * PAGE;
    let off = NEXT.fetch_add(total, Ordering::Relaxed);
    if off + total > REGION_LEN {
        return std::ptr::null_mut();
    }
    let base = (r + off) as *mut u8;
    unsafe {
        if libc::mprotect(
            base as *mut _,
            data_pages * PAGE,
            libc::PROT_READ | libc::PROT_WRITE,
        ) != 0
        {
            return std::ptr::null_mut();
        }
        GUARDED_ALLOCS.fetch_add(1, Ordering::Relaxed);
        if m == 1 {
            base.add(data_pages * PAGE - rsize)
        } else {
            base
        }
    }
}

unsafe fn guarded_free(p: *mut u8, layout: Layout) {
    let align = layout.align();
    let size = layout.size().max(1);
    let rsize = size.div_ceil(align) * align;
    let data_pages = rsize.div_ceil(PAGE);
    let base = (p as usize) & !(PAGE - 1);
    unsafe {
        // back to an inaccessible reservation: drops the physical pages and
        // makes any later access fault
        libc::mmap(
            base as *mut _,
            data_pages * PAGE,
            libc::PROT_NONE,
            libc::MAP_PRIVATE | libc::MAP_ANONYMOUS | libc::MAP_NORESERVE | libc::MAP_FIXED,
            -1,
            0,
        );
    }
}

unsafe impl GlobalAlloc for GuardAlloc {
    unsafe fn alloc(&self, layout: Layout) -> *mut u8 {
        let m = mode();
        if m != 0 {
            let p = unsafe { guarded_alloc(layout, m, false) };
            if !p.is_null() {
                return p;
            }
            FALLBACKS.fetch_add(1, Ordering::Relaxed);
        }
        unsafe { System.alloc(layout) }
    }
    unsafe fn dealloc(&self, p: *mut u8, layout: Layout) {
        if in_pool(p) {
            unsafe { pool_free(p) }
        } else if in_region(p) {
            unsafe { guarded_free(p, layout) }
        } else {
            unsafe { System.dealloc(p, layout) }
        }
    }
    unsafe fn alloc_zeroed(&self, layout: Layout) -> *mut u8 {
        let m = mode();
        if m != 0 {
            // fresh anonymous pages are zero
            let p = unsafe { guarded_alloc(layout, m, true) };
            if !p.is_null() {
                return p;
            }
            FALLBACKS.fetch_add(1, Ordering::Relaxed);
        }
        unsafe { System.alloc_zeroed(layout) }
    }
    unsafe fn realloc(&self, p: *mut u8, layout: Layout, new_size: usize) -> *mut u8 {
        if mode() == 0 && !in_region(p) && !in_pool(p) {
            return unsafe { System.realloc(p, layout, new_size) };
        }
        unsafe {
            let nl = Layout::from_size_align_unchecked(new_size, layout.align());
            let q = self.alloc(nl);
            if !q.is_null() {
                std::ptr::copy_nonoverlapping(p, q, layout.size().min(new_size));
                self.dealloc(p, layout);
            }
            q
        }
    }
}
