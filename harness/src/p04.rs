//! C04 — simplifying with a trace never changes values on the traced domain
use crate::build::*;
use crate::engine::*;
use crate::gens;
use crate::p02::{ref_taint, ref_taint_ext};
use crate::p03::{interval_strategy, sample_in};
use crate::refsem::same;
use crate::spec::*;
use crate::{ensure, fail};
use fidget_core::context::Node;
use fidget_core::eval::{BulkEvaluator, Function, MathFunction, TracingEvaluator};
use fidget_core::types::{Grad, Interval};
use fidget_core::vm::{Choice, GenericVmFunction, VmTrace};
use fidget_jit::JitFunction;
use proptest::collection::vec;
use proptest::prelude::*;
use serde::{Deserialize, Serialize};

#[derive(Clone, Debug, Serialize, Deserialize)]
pub struct Step {
    /// sub-box of the previous box: per variable (start, end) fractions /1000
    pub sub: Vec<(u16, u16)>,
    /// trace from the interval evaluator (true) or from the point evaluator at
    /// sample 0 (false)
    pub interval: bool,
}

#[derive(Clone, Debug, Serialize, Deserialize)]
pub struct Case {
    pub dag: DagSpec,
    pub outs: Vec<u16>,
    pub boxes: Vec<(Fl, Fl)>,
    pub steps: Vec<Step>,
    /// sample positions (fractions of the current box)
    pub samples: Vec<Vec<u16>>,
    /// 0 = JIT, 1.. = interpreter with a (N, M) budget pair
    pub backend: u8,
}

pub struct P;

pub const PAIRS: [(usize, usize); 9] = [
    (255, 255),
    (12, 12),
    (4, 4),
    (3, 3),
    (255, 4),
    (255, 3),
    (4, 255),
    (12, 3),
    (3, 12),
];

/// Values of every output under the function's four evaluator kinds, at the
/// given points: [kind][point][output]
pub fn eval_kinds<F: Function>(
    f: &F,
    pts: &[Vec<f32>],
) -> Result<Vec<Vec<Vec<f32>>>, Fail> {
    let nout = f.output_count();
    let mut kinds = vec![];
    // point
    {
        let t = f.point_tape(Default::default());
        let mut e = F::new_point_eval();
        let mut per = vec![];
        for p in pts {
            let (o, _) = e
                .eval(&t, p)
                .map_err(|e| Fail::new("eval-error", format!("{e:?}")))?;
            ensure!(o.len() == nout, "output-len", "point: {} != {nout}", o.len());
            per.push(o.to_vec());
        }
        kinds.push(per);
    }
    // float slice
    {
        let t = f.float_slice_tape(Default::default());
        let mut e = F::new_float_slice_eval();
        let nin = pts.first().map(|p| p.len()).unwrap_or(0);
        let cols: Vec<Vec<f32>> = (0..nin)
            .map(|i| pts.iter().map(|p| p[i]).collect())
            .collect();
        let o = e
            .eval(&t, &cols)
            .map_err(|e| Fail::new("eval-error", format!("{e:?}")))?;
        ensure!(o.len() == nout, "output-len", "slice: {} != {nout}", o.len());
        let mut per = vec![];
        if nin > 0 {
            for i in 0..pts.len() {
                per.push((0..nout).map(|k| o[k][i]).collect());
            }
        }
        kinds.push(per);
    }
    // gradient slice: value and the three derivative components, with a fixed
    // seed gradient per input slot (unit axes, then a mixed one)
    {
        let t = f.grad_slice_tape(Default::default());
        let mut e = F::new_grad_slice_eval();
        let nin = pts.first().map(|p| p.len()).unwrap_or(0);
        let seed = |i: usize, v: f32| match i % 4 {
            0 => Grad::new(v, 1.0, 0.0, 0.0),
            1 => Grad::new(v, 0.0, 1.0, 0.0),
            2 => Grad::new(v, 0.0, 0.0, 1.0),
            _ => Grad::new(v, 0.5, -2.0, 0.25),
        };
        let cols: Vec<Vec<Grad>> = (0..nin)
            .map(|i| pts.iter().map(|p| seed(i, p[i])).collect())
            .collect();
        let o = e
            .eval(&t, &cols)
            .map_err(|e| Fail::new("eval-error", format!("{e:?}")))?;
        ensure!(o.len() == nout, "output-len", "grad: {} != {nout}", o.len());
        for comp in 0..4 {
            let mut per = vec![];
            if nin > 0 {
                for i in 0..pts.len() {
                    per.push(
                        (0..nout)
                            .map(|k| match comp {
                                0 => o[k][i].v,
                                1 => o[k][i].dx,
                                2 => o[k][i].dy,
                                _ => o[k][i].dz,
                            })
                            .collect(),
                    );
                }
            }
            kinds.push(per);
        }
    }
    Ok(kinds)
}

pub const KIND_NAMES: [&str; 6] = [
    "point",
    "float-slice",
    "grad-slice.v",
    "grad-slice.dx",
    "grad-slice.dy",
    "grad-slice.dz",
];

/// True if, below `root`, some node has a NaN value although none of its
/// operands is NaN and one of them is infinite (inf*0, inf/inf, inf-inf,
/// sin(inf), mod(inf, c) ...): interval arithmetic drops such NaNs
pub fn nan_from_inf(
    b: &Built,
    root: Node,
    vals: &std::collections::HashMap<Node, f32>,
) -> bool {
    for n in topo(&b.ctx, &[root]) {
        let op = b.ctx.get_op(n).unwrap();
        let ch: Vec<Node> = op.iter_children().collect();
        if vals[&n].is_nan()
            && !ch.is_empty()
            && ch.iter().all(|c| !vals[c].is_nan())
            && ch.iter().any(|c| vals[c].is_infinite())
        {
            return true;
        }
    }
    false
}

/// F21: interval arithmetic is not outward-rounded.  True if, on one of the
/// boxes that produced a trace so far, some node below `root` of the ORIGINAL
/// graph has an interval that misses its own point value at `p` by at most 4
/// ulps (the rounding C03's statement concedes).  A decided choice can then be
/// wrong at `p` -- and a pole or a later choice amplifies the difference.
/// The internal intervals of the function that was traced are exactly those of
/// the original graph on the same box (a decided min / max / and / or has the
/// interval of the operand it keeps), so an all-nodes function of the original
/// graph reproduces them.
fn rounding_miss(env: &Env, root: Node, boxes: &[Vec<(f32, f32)>], p: &[f32]) -> Option<String> {
    fn one<F: MathFunction>(env: &Env, root: Node, boxes: &[Vec<(f32, f32)>], p: &[f32]) -> Option<String> {
        let below: Vec<Node> = topo(&env.b.ctx, &[root])
            .into_iter()
            .filter(|n| !env.b.var_nodes.contains(n))
            .collect();
        if below.is_empty() {
            return None;
        }
        let f = F::new(&env.b.ctx, &below).ok()?;
        let vm = f.vars();
        // function slot -> position in `p` / the boxes (via the spec variable)
        let mut slot_to_k: Vec<Option<usize>> = vec![None; vm.len()];
        for (k, i) in env.order_spec.iter().enumerate() {
            if let Some(s) = vm.get(&env.b.vars[*i]) {
                slot_to_k[s] = Some(k);
            }
        }
        let pin: Vec<f32> = slot_to_k.iter().map(|k| k.map(|k| p[k]).unwrap_or(0.0)).collect();
        let pt = f.point_tape(Default::default());
        let mut pe = F::new_point_eval();
        let pv: Vec<f32> = pe.eval(&pt, &pin).ok()?.0.to_vec();
        let it = f.interval_tape(Default::default());
        let mut ie = F::new_interval_eval();
        for bx in boxes {
            let iin: Vec<Interval> = slot_to_k
                .iter()
                .map(|k| k.map(|k| Interval::new(bx[k].0, bx[k].1)).unwrap_or(Interval::from(0.0)))
                .collect();
            let iv: Vec<Interval> = ie.eval(&it, &iin).ok()?.0.to_vec();
            for (j, n) in below.iter().enumerate() {
                let (i, v) = (iv[j], pv[j]);
                if i.has_nan() || v.is_nan() || (i.lower() <= v && v <= i.upper()) {
                    continue;
                }
                if crate::refsem::ulps(v, i.lower()) <= 4 || crate::refsem::ulps(v, i.upper()) <= 4 {
                    return Some(format!(
                        "{:?}: interval [{}, {}] misses its point value {} by a few ulps",
                        env.b.ctx.get_op(*n).unwrap(),
                        fl_to_string(i.lower()),
                        fl_to_string(i.upper()),
                        fl_to_string(v)
                    ));
                }
            }
        }
        None
    }
    one::<fidget_core::vm::VmFunction>(env, root, boxes, p).or_else(|| one::<JitFunction>(env, root, boxes, p))
}

/// Interval-side witnesses for F11 and F6, from all-nodes interval evaluations
/// of the ORIGINAL graph (interpreter and JIT) on the boxes traced so far.
/// F11 (a NaN born from an infinite operand is dropped): some node below
/// `root` is NaN at the point although its operands are not and one of them is
/// infinite, AND its interval on a traced box is not the NaN interval.
/// F6 (a one-pattern zero interval stands for the zero of the other sign): a
/// rand / mix node below `root` has an operand whose point value is a zero and
/// whose interval on a traced box is the other zero at both ends.  An atan2
/// of two zeros (C03's stated exclusion) counts as an F6-class witness too.
/// Without a witness the interval evaluator saw what the point evaluator saw
/// and the listed finding cannot be the cause of a difference.
fn interval_witness(
    env: &Env,
    root: Node,
    boxes: &[Vec<(f32, f32)>],
    vals: &std::collections::HashMap<Node, f32>,
) -> (bool, bool) {
    use fidget_core::context::{BinaryOpcode, Op, UnaryOpcode};
    fn one<F: MathFunction>(
        env: &Env,
        root: Node,
        boxes: &[Vec<(f32, f32)>],
        vals: &std::collections::HashMap<Node, f32>,
        out: &mut (bool, bool),
    ) -> Option<()> {
        let below: Vec<Node> = topo(&env.b.ctx, &[root])
            .into_iter()
            .filter(|n| !env.b.var_nodes.contains(n))
            .collect();
        if below.is_empty() {
            return None;
        }
        let f = F::new(&env.b.ctx, &below).ok()?;
        let vm = f.vars();
        let mut slot_to_k: Vec<Option<usize>> = vec![None; vm.len()];
        let mut var_k: std::collections::HashMap<Node, usize> = Default::default();
        for (k, i) in env.order_spec.iter().enumerate() {
            if let Some(s) = vm.get(&env.b.vars[*i]) {
                slot_to_k[s] = Some(k);
            }
            var_k.insert(env.b.var_nodes[*i], k);
        }
        let index: std::collections::HashMap<Node, usize> =
            below.iter().enumerate().map(|(j, n)| (*n, j)).collect();
        let it = f.interval_tape(Default::default());
        let mut ie = F::new_interval_eval();
        for bx in boxes {
            let iin: Vec<Interval> = slot_to_k
                .iter()
                .map(|k| k.map(|k| Interval::new(bx[k].0, bx[k].1)).unwrap_or(Interval::from(0.0)))
                .collect();
            let iv: Vec<Interval> = ie.eval(&it, &iin).ok()?.0.to_vec();
            let of = |n: Node| -> Option<Interval> {
                index
                    .get(&n)
                    .map(|j| iv[*j])
                    .or_else(|| var_k.get(&n).map(|k| Interval::new(bx[*k].0, bx[*k].1)))
            };
            let other_zero = |c: Node| -> bool {
                let p = vals[&c];
                match of(c) {
                    Some(i) => {
                        p == 0.0
                            && i.lower() == 0.0
                            && i.lower().to_bits() == i.upper().to_bits()
                            && i.lower().to_bits() != p.to_bits()
                    }
                    None => false,
                }
            };
            for n in &below {
                let op = *env.b.ctx.get_op(*n).unwrap();
                let ch: Vec<Node> = op.iter_children().collect();
                if vals[n].is_nan()
                    && !ch.is_empty()
                    && ch.iter().all(|c| !vals[c].is_nan())
                    && ch.iter().any(|c| vals[c].is_infinite())
                    && of(*n).map(|i| !i.has_nan()).unwrap_or(false)
                {
                    out.0 = true;
                }
                match op {
                    Op::Unary(UnaryOpcode::Rand, a) if other_zero(a) => out.1 = true,
                    Op::Binary(BinaryOpcode::Mix, l, r) if other_zero(l) || other_zero(r) => out.1 = true,
                    _ => {}
                }
            }
        }
        Some(())
    }
    let mut out = (false, false);
    one::<fidget_core::vm::VmFunction>(env, root, boxes, vals, &mut out);
    one::<JitFunction>(env, root, boxes, vals, &mut out);
    // atan2(0, 0) below the root: the stated exclusion of C03
    for n in topo(&env.b.ctx, &[root]) {
        if let Op::Binary(BinaryOpcode::Atan, l, r) = *env.b.ctx.get_op(n).unwrap() {
            if vals[&l] == 0.0 && vals[&r] == 0.0 {
                out.1 = true;
            }
        }
    }
    out
}

/// F18 (see C03) reaching a decision: true if, on one of the traced boxes, the
/// JIT's interval evaluation of the original graph has a mul / div node below
/// `root` whose four bound products are a mixture of NaN and non-NaN values --
/// the lane-wise min / max then drop real products, the node's interval is
/// wrong, and a choice decided from it (directly or downstream) is wrong too.
fn jit_mul_nan_products(env: &Env, root: Node, boxes: &[Vec<(f32, f32)>]) -> Option<String> {
    use fidget_core::context::{BinaryOpcode, Op};
    if !env.jit {
        return None;
    }
    let below: Vec<Node> = topo(&env.b.ctx, &[root])
        .into_iter()
        .filter(|n| !env.b.var_nodes.contains(n))
        .collect();
    if below.is_empty() {
        return None;
    }
    let f = JitFunction::new(&env.b.ctx, &below).ok()?;
    let vm = f.vars();
    let mut slot_to_k: Vec<Option<usize>> = vec![None; vm.len()];
    let mut var_k: std::collections::HashMap<Node, usize> = Default::default();
    for (k, i) in env.order_spec.iter().enumerate() {
        if let Some(s) = vm.get(&env.b.vars[*i]) {
            slot_to_k[s] = Some(k);
        }
        var_k.insert(env.b.var_nodes[*i], k);
    }
    let index: std::collections::HashMap<Node, usize> = below.iter().enumerate().map(|(j, n)| (*n, j)).collect();
    let it = f.interval_tape(Default::default());
    let mut ie = JitFunction::new_interval_eval();
    for bx in boxes {
        let iin: Vec<Interval> = slot_to_k
            .iter()
            .map(|k| k.map(|k| Interval::new(bx[k].0, bx[k].1)).unwrap_or(Interval::from(0.0)))
            .collect();
        let iv: Vec<Interval> = ie.eval(&it, &iin).ok()?.0.to_vec();
        let of = |n: Node| -> Option<Interval> {
            index
                .get(&n)
                .map(|j| iv[*j])
                .or_else(|| var_k.get(&n).map(|k| Interval::new(bx[*k].0, bx[*k].1)))
        };
        for n in &below {
            if let Op::Binary(o @ (BinaryOpcode::Mul | BinaryOpcode::Div), l, r) = *env.b.ctx.get_op(*n).unwrap() {
                let (Some(a), Some(b)) = (of(l), of(r)) else { continue };
                let (mut nan, mut real) = (0, 0);
                for x in [a.lower(), a.upper()] {
                    for y in [b.lower(), b.upper()] {
                        let p = if o == BinaryOpcode::Mul { x * y } else { x / y };
                        if p.is_nan() {
                            nan += 1;
                        } else {
                            real += 1;
                        }
                    }
                }
                if nan > 0 && real > 0 {
                    return Some(format!(
                        "JIT interval {o:?} of [{}, {}] and [{}, {}] has NaN and non-NaN bound products",
                        fl_to_string(a.lower()),
                        fl_to_string(a.upper()),
                        fl_to_string(b.lower()),
                        fl_to_string(b.upper())
                    ));
                }
            }
        }
    }
    None
}

struct Env<'a> {
    b: &'a Built,
    roots: &'a [Node],
    order_spec: Vec<usize>, // function slot -> spec variable
    /// the chain uses the JIT's evaluators
    jit: bool,
}

fn trace_classes(t: &VmTrace) -> (usize, usize, usize) {
    let mut l = 0;
    let mut b = 0;
    let mut u = 0;
    for c in t.as_slice() {
        match c {
            Choice::Left | Choice::Right => l += 1,
            Choice::Both => b += 1,
            Choice::Unknown => u += 1,
        }
    }
    (l, b, u)
}

/// Runs the chain: `cur` is the current function, traced on successive
/// sub-boxes; after every simplification, the newest child is compared with
/// the original parent on points of the current box.
fn chain<Pf, Cf>(
    case: &Case,
    env: &Env,
    parent: &Pf,
    first: &dyn Fn(&Pf, &VmTrace) -> Result<Cf, String>,
    next: &dyn Fn(&Cf, &VmTrace) -> Result<Cf, String>,
    same_budget: bool,
    cx: &mut Cx,
) -> CheckResult
where
    Pf: Function<Trace = VmTrace>,
    Cf: Function<Trace = VmTrace>,
{
    let nin = parent.vars().len();
    let mut cur_box: Vec<(f32, f32)> = env
        .order_spec
        .iter()
        .map(|i| (case.boxes[*i].0.0, case.boxes[*i].1.0))
        .collect();
    let mut child: Option<Cf> = None;
    let mut depth = 0;
    let mut nontrivial = false;
    // the boxes interval traces were taken on so far
    let mut traced_boxes: Vec<Vec<(f32, f32)>> = vec![];
    for step in &case.steps {
        // shrink the box
        for (k, i) in env.order_spec.iter().enumerate() {
            let (a, bfrac) = step.sub[*i % step.sub.len()];
            let (lo, hi) = cur_box[k];
            let x = sample_in(lo, hi, a.min(bfrac));
            let y = sample_in(lo, hi, a.max(bfrac));
            cur_box[k] = (x.min(y), x.max(y));
        }
        let pts: Vec<Vec<f32>> = case
            .samples
            .iter()
            .map(|s| {
                env.order_spec
                    .iter()
                    .enumerate()
                    .map(|(k, i)| sample_in(cur_box[k].0, cur_box[k].1, s[*i]))
                    .collect()
            })
            .collect();
        // take a trace from the current function
        let trace: Option<VmTrace> = {
            macro_rules! take {
                ($f:expr, $F:ty) => {{
                    if step.interval {
                        let t = $f.interval_tape(Default::default());
                        let mut e = <$F>::new_interval_eval();
                        let iv: Vec<Interval> = cur_box
                            .iter()
                            .map(|(l, u)| Interval::new(*l, *u))
                            .collect();
                        let (_, tr) = e
                            .eval(&t, &iv)
                            .map_err(|e| Fail::new("eval-error", format!("{e:?}")))?;
                        tr.cloned()
                    } else {
                        let t = $f.point_tape(Default::default());
                        let mut e = <$F>::new_point_eval();
                        let (_, tr) = e
                            .eval(&t, &pts[0])
                            .map_err(|e| Fail::new("eval-error", format!("{e:?}")))?;
                        tr.cloned()
                    }
                }};
            }
            match &child {
                None => take!(parent, Pf),
                Some(c) => take!(c, Cf),
            }
        };
        let Some(trace) = trace else {
            cx.ev.count("no_trace_returned");
            continue;
        };
        if step.interval {
            traced_boxes.push(cur_box.clone());
        }
        let (lr, both, unk) = trace_classes(&trace);
        cx.ev.count(if step.interval {
            "traces_from_interval_eval"
        } else {
            "traces_from_point_eval"
        });
        // simplification must succeed for a trace the evaluator just returned
        let new_child = match &child {
            None => first(parent, &trace),
            Some(c) => next(c, &trace),
        }
        .map_err(|e| {
            Fail::new(
                "simplify-rejected-own-trace",
                format!("simplify failed on a trace just returned ({lr} decided, {both} both, {unk} unknown): {e}"),
            )
        })?;
        depth += 1;
        // structural promises
        ensure!(
            new_child.output_count() == parent.output_count(),
            "child-output-count",
            "{} != {}",
            new_child.output_count(),
            parent.output_count()
        );
        for (v, i) in new_child.vars().iter() {
            ensure!(
                parent.vars().get(&v) == Some(i),
                "child-var-renumbered",
                "child maps {v:?} to {i}, parent to {:?}",
                parent.vars().get(&v)
            );
        }
        ensure!(
            new_child.vars().len() <= nin,
            "child-var-count",
            "child has more variables than the parent"
        );
        if same_budget {
            let prev = match &child {
                None => parent.size(),
                Some(c) => c.size(),
            };
            if new_child.size() > prev {
                cx.ev.count("child_longer_than_parent_same_budget");
            }
        }
        // values on the traced domain
        let cmp_pts: Vec<Vec<f32>> = if step.interval {
            pts.clone()
        } else {
            vec![pts[0].clone()]
        };
        let pk = eval_kinds(parent, &cmp_pts)?;
        let ck = eval_kinds(&new_child, &cmp_pts)?;
        for (pi, p) in cmp_pts.iter().enumerate() {
            // reference taint at this point
            let mut spec_p = vec![Fl(0.0); 8];
            for (k, i) in env.order_spec.iter().enumerate() {
                spec_p[*i] = Fl(p[k]);
            }
            let pm = point_map(&env.b.vars, &spec_p);
            let vals = eval_all(&env.b.ctx, env.roots, &pm);
            let order = topo(&env.b.ctx, env.roots);
            let taint = ref_taint(&env.b.ctx, &order, &vals);
            let gtaint = ref_taint_ext(&env.b.ctx, &order, &vals, true, false);
            for kind in 0..KIND_NAMES.len() {
                if pk[kind].is_empty() {
                    continue;
                }
                let (pv, cv) = (&pk[kind][pi], &ck[kind][pi]);
                for k in 0..pv.len() {
                    let root = env.roots[k % env.roots.len()];
                    cx.ev.count("value_comparisons");
                    if same(pv[k], cv[k]) {
                        continue;
                    }
                    // the witnesses are computed on the original graph, which
                    // is the function that was traced only in the first step
                    // of a chain; later steps trace a child, whose intervals
                    // can differ (e.g. a one-pattern zero out of and_choice)
                    let (w11, w6) = if depth == 1 {
                        interval_witness(env, root, &traced_boxes, &vals)
                    } else {
                        (true, true)
                    };
                    if depth == 1 {
                        cx.ev.count("mismatches_attributed_with_interval_witness");
                    }
                    let sig = if taint[&root] {
                        "F7-minmax-zero-tie-amplified"
                    } else if w6 && ref_taint_ext(&env.b.ctx, &order, &vals, false, true)[&root] {
                        // rand / mix of a zero (or atan2(0, 0)): the interval
                        // evaluator hashes the other zero's bit pattern
                        "F6-interval-hash-of-zero"
                    } else if kind >= 2 && gtaint[&root] {
                        "F12-grad-abs-negative-zero-amplified"
                    } else if w11 && nan_from_inf(env.b, root, &vals) {
                        "F11-interval-ignores-nan-from-infinity"
                    } else {
                        "child-differs-from-parent"
                    };
                    if sig != "child-differs-from-parent" && cx.known(sig) {
                        continue;
                    }
                    if sig == "child-differs-from-parent" {
                        if let Some(why) = jit_mul_nan_products(env, root, &traced_boxes) {
                            if cx.known("F18-jit-interval-mul-nan-product") {
                                continue;
                            }
                            fail!(
                                "F18-jit-interval-mul-nan-product",
                                "after {depth} simplification(s): {} output {k}: parent {} child {} at {:?} (box {:?}); {why}",
                                KIND_NAMES[kind],
                                fl_to_string(pv[k]),
                                fl_to_string(cv[k]),
                                p,
                                cur_box
                            );
                        }
                        if let Some(why) = rounding_miss(env, root, &traced_boxes, p) {
                            if cx.known("F21-interval-not-outward-rounded") {
                                continue;
                            }
                            fail!(
                                "F21-interval-not-outward-rounded",
                                "after {depth} simplification(s): {} output {k}: parent {} child {} at {:?} (box {:?}); {why}",
                                KIND_NAMES[kind],
                                fl_to_string(pv[k]),
                                fl_to_string(cv[k]),
                                p,
                                cur_box
                            );
                        }
                    }
                    fail!(
                        sig,
                        "after {depth} simplification(s) (last trace from {} eval: {lr} decided / {both} both): {} output {k}: parent {} child {} at {:?} (box {:?})",
                        if step.interval { "interval" } else { "point" },
                        KIND_NAMES[kind],
                        fl_to_string(pv[k]),
                        fl_to_string(cv[k]),
                        p,
                        cur_box
                    );
                }
            }
        }
        // the child's interval evaluator must still be sound on the traced
        // domain: it may be tighter than the parent, never wrong
        {
            let t = new_child.interval_tape(Default::default());
            let mut e = Cf::new_interval_eval();
            let iv: Vec<Interval> = if step.interval {
                cur_box.iter().map(|(l, u)| Interval::new(*l, *u)).collect()
            } else {
                pts[0].iter().map(|v| Interval::from(*v)).collect()
            };
            let (o, _) = e
                .eval(&t, &iv)
                .map_err(|e| Fail::new("eval-error", format!("{e:?}")))?;
            ensure!(
                o.len() == parent.output_count(),
                "output-len",
                "child interval eval: {} outputs",
                o.len()
            );
            for (pi, p) in cmp_pts.iter().enumerate() {
                for (k, i) in o.iter().enumerate() {
                    let pv = pk[0][pi][k];
                    cx.ev.count("child_interval_enclosure_checks");
                    if i.has_nan() || pv.is_nan() {
                        continue;
                    }
                    let ok = (i.lower() <= pv && pv <= i.upper())
                        || crate::refsem::ulps(pv, i.lower()) <= 4
                        || crate::refsem::ulps(pv, i.upper()) <= 4;
                    if !ok {
                        // tolerated only downstream of a known-finding taint
                        let mut spec_p = vec![Fl(0.0); 8];
                        for (kk, ii) in env.order_spec.iter().enumerate() {
                            spec_p[*ii] = Fl(p[kk]);
                        }
                        let pm = point_map(&env.b.vars, &spec_p);
                        let vals = eval_all(&env.b.ctx, env.roots, &pm);
                        let order = topo(&env.b.ctx, env.roots);
                        let taint = ref_taint_ext(&env.b.ctx, &order, &vals, false, true);
                        cx.ev.count("child_interval_miss_candidates");
                        // (the child's own interval evaluation is at issue
                        // here, so the attribution cannot use witnesses taken
                        // from the original graph)
                        let w11 = true;
                        if taint[&env.roots[k]] {
                            cx.ev.count("child_interval_miss_tainted_skipped");
                            continue;
                        }
                        // the same root cause as F11 (a NaN born from an
                        // infinite operand is invisible to interval arithmetic,
                        // so a decided choice dropped the branch that the point
                        // evaluation takes): the child then differs in value
                        // (tolerated above) and its interval cannot enclose
                        if w11
                            && nan_from_inf(env.b, env.roots[k], &vals)
                            && cx.known("F11-interval-ignores-nan-from-infinity")
                        {
                            cx.ev.count("child_interval_miss_f11_skipped");
                            continue;
                        }
                        if jit_mul_nan_products(env, env.roots[k], &traced_boxes).is_some()
                            && cx.known("F18-jit-interval-mul-nan-product")
                        {
                            cx.ev.count("child_interval_miss_f18_skipped");
                            continue;
                        }
                        if rounding_miss(env, env.roots[k], &traced_boxes, p).is_some()
                            && cx.known("F21-interval-not-outward-rounded")
                        {
                            cx.ev.count("child_interval_miss_f21_skipped");
                            continue;
                        }
                        // also excused if the *parent's* interval evaluator
                        // does not enclose its own point value here (C03's
                        // business, e.g. rand of a zero)
                        let pt = parent.interval_tape(Default::default());
                        let mut pe = Pf::new_interval_eval();
                        let (po, _) = pe.eval(&pt, &iv).unwrap();
                        let pi_ = po[k];
                        if !(pi_.has_nan() || (pi_.lower() <= pv && pv <= pi_.upper())) {
                            cx.ev.count("child_interval_miss_parent_also_misses");
                            continue;
                        }
                        fail!(
                            "child-interval-unsound",
                            "after {depth} simplification(s): child interval [{}, {}] for output {k} does not contain the parent's point value {} at {:?} (box {:?})",
                            fl_to_string(i.lower()),
                            fl_to_string(i.upper()),
                            fl_to_string(pv),
                            p,
                            cur_box
                        );
                    }
                }
            }
        }
        if lr > 0 && both > 0 && new_child.size() < parent.size() {
            nontrivial = true;
        }
        if depth >= 2 {
            cx.ev.count("chains_of_2_or_more");
        }
        if new_child.size() < parent.size() {
            cx.ev.count("child_strictly_shorter");
        }
        child = Some(new_child);
        if !step.interval {
            // a point trace is valid at that point only: the domain of every
            // later step is that single point
            cur_box = pts[0].iter().map(|v| (*v, *v)).collect();
        }
    }
    if parent.output_count() > 1 && depth > 0 {
        cx.ev.count("multi_output_simplified");
    }
    if nontrivial {
        cx.ev.nontrivial(case);
    }
    Ok(())
}

fn run_vm<const N: usize, const M: usize>(case: &Case, env: &Env, cx: &mut Cx) -> CheckResult {
    let parent = GenericVmFunction::<N>::new(&env.b.ctx, env.roots).unwrap();
    chain::<GenericVmFunction<N>, GenericVmFunction<M>>(
        case,
        env,
        &parent,
        &|p, t| {
            let mut ws = Default::default();
            p.simplify_with::<M>(t, Default::default(), &mut ws)
                .map_err(|e| format!("{e:?}"))
        },
        &|c, t| {
            let mut ws = Default::default();
            c.simplify(t, Default::default(), &mut ws)
                .map_err(|e| format!("{e:?}"))
        },
        N == M,
        cx,
    )
}

impl Prop for P {
    const ID: &'static str = "C04";
    type Case = Case;

    fn strategy(tier: Tier) -> BoxedStrategy<Case> {
        let max = tier.pick(40, 120);
        let mut p = gens::DagParams::all(max).boost_choices(8);
        p.max_vars = 4;
        p.consts = prop_oneof![
            4 => gens::fl_uniform(-2.0, 2.0),
            2 => gens::fl_grid(),
            1 => gens::fl_special(),
        ]
        .boxed();
        let step = (vec((0u16..=1000, 0u16..=1000), 4..=4), prop::bool::weighted(0.7))
            .prop_map(|(sub, interval)| Step { sub, interval });
        (
            gens::dag(p),
            vec(any::<u16>(), 1..=5),
            vec(interval_strategy(1e6), 8..=8),
            vec(step, 1..=4),
            crate::p03::samples_strategy(2..=8),
            prop_oneof![3 => Just(0u8), 7 => 1u8..=(PAIRS.len() as u8)],
        )
            .prop_map(|(dag, outs, boxes, steps, samples, backend)| { let boxes = gens::coincide_boxes(&dag, boxes, 1e6); Case {
                dag,
                outs,
                boxes,
                steps,
                samples,
                backend,
            }})
            .boxed()
    }

    fn check(case: &Case, cx: &mut Cx) -> CheckResult {
        let b = build_dag(&case.dag);
        let roots = crate::p01::roots_of(&b, &Some(case.outs.clone()));
        // variable order of the function (identical for all budgets)
        let probe = GenericVmFunction::<255>::new(&b.ctx, &roots).unwrap();
        let vm = probe.vars();
        let mut order_spec = vec![usize::MAX; vm.len()];
        for (i, v) in b.vars.iter().enumerate() {
            if let Some(s) = vm.get(v) {
                order_spec[s] = i;
            }
        }
        let env = Env {
            b: &b,
            roots: &roots,
            order_spec,
            jit: case.backend == 0,
        };
        cx.ev.count(&format!("backend_{}", case.backend));
        match case.backend {
            0 => {
                let parent = JitFunction::new(&b.ctx, &roots).unwrap();
                let simp = |f: &JitFunction, t: &VmTrace| {
                    let mut ws = Default::default();
                    f.simplify(t, Default::default(), &mut ws)
                        .map_err(|e| format!("{e:?}"))
                };
                chain::<JitFunction, JitFunction>(
                    case, &env, &parent, &simp, &simp, true, cx,
                )
            }
            1 => run_vm::<255, 255>(case, &env, cx),
            2 => run_vm::<12, 12>(case, &env, cx),
            3 => run_vm::<4, 4>(case, &env, cx),
            4 => run_vm::<3, 3>(case, &env, cx),
            5 => run_vm::<255, 4>(case, &env, cx),
            6 => run_vm::<255, 3>(case, &env, cx),
            7 => run_vm::<4, 255>(case, &env, cx),
            8 => run_vm::<12, 3>(case, &env, cx),
            _ => run_vm::<3, 12>(case, &env, cx),
        }
    }

    fn reduce(case: &Case) -> Vec<Case> {
        let mut out = vec![];
        if case.steps.len() > 1 {
            for k in 0..case.steps.len() {
                let mut c = case.clone();
                c.steps.remove(k);
                out.push(c);
            }
        }
        if case.samples.len() > 1 {
            for s in &case.samples {
                let mut c = case.clone();
                c.samples = vec![s.clone()];
                out.push(c);
            }
        }
        if case.outs.len() > 1 {
            for o in &case.outs {
                let mut c = case.clone();
                c.outs = vec![*o];
                out.push(c);
            }
        }
        let nv = case.dag.nvars as usize;
        let plen = nv + case.dag.nodes.len();
        let roots: Vec<usize> = case.outs.iter().map(|s| sel_index(*s, plen)).collect();
        let (dag, nr) = case.dag.prune(&roots);
        if dag.nodes.len() < case.dag.nodes.len() && !dag.nodes.is_empty() {
            let l2 = nv + dag.nodes.len();
            let mut c = case.clone();
            c.outs = nr.iter().map(|r| sel_for(*r, l2)).collect();
            c.dag = dag;
            out.push(c);
        }
        out
    }

    fn plan(tier: Tier) -> Plan {
        match tier {
            Tier::Quick => Plan {
                workers: 16,
                cases_per_worker: 15000,
                timeout_s: 1800,
                max_shrink_iters: 2000,
            },
            Tier::Thorough => Plan {
                workers: 16,
                cases_per_worker: 500000,
                timeout_s: 14400,
                max_shrink_iters: 2000,
            },
        }
    }

    fn rule() -> &'static str {
        "proptest-generated DAGs with boosted min/max/and/or (shared between branches, with immediates), 1-5 outputs, \
         a box per variable and a chain of 1-4 nested sub-boxes; at each step a trace is taken from the current \
         function with its interval evaluator on the box or its point evaluator at a point (JIT or interpreter), the \
         function is simplified with it (JIT->JIT, or interpreter budget N -> M over 9 (N, M) pairs incl. 255->3 and 3->12), \
         and the newest child is compared with the ORIGINAL parent at up to 8 points of the traced box (or the traced \
         point) (sample points biased to corners and faces; box bounds may coincide bit for bit with program constants) under the point, float-slice and gradient-slice evaluators (value and dx, dy, dz with a fixed seed gradient per input) bit-for-bit (NaN=NaN); the child's interval evaluator on the \
         traced box must still enclose the parent's point values. Also: simplify never rejects/panics on a trace just returned; child keeps output count and \
         variable numbering. Non-trivial = the trace has at least one Left/Right and at least one Both entry and the child \
         is strictly shorter than the parent."
    }

    fn assumptions() -> Vec<&'static str> {
        vec![
            "a parent/child mismatch downstream of a min/max tie between zeros of opposite sign is attributed to known finding F7; F11 / F6 are attributed in the first step of a chain only with an interval-side witness on the traced box (NaN-from-infinity node with a non-NaN interval; hashed operand whose interval is the other zero); anything else is a violation",
            "x86_64 JIT only",
        ]
    }
}

/// Debug helper: prints tapes, trace and values for a replay case (VM only)
pub fn debug(case: &Case) {
    use fidget_core::vm::VmFunction;
    let b = build_dag(&case.dag);
    let roots = crate::p01::roots_of(&b, &Some(case.outs.clone()));
    let f = VmFunction::new(&b.ctx, &roots).unwrap();
    println!("--- parent");
    f.data().pretty_print();
    let vm = f.vars();
    let mut order = vec![usize::MAX; vm.len()];
    for (i, v) in b.vars.iter().enumerate() {
        if let Some(s) = vm.get(v) {
            order[s] = i;
        }
    }
    let mut cur: Vec<(f32, f32)> = order.iter().map(|i| (case.boxes[*i].0.0, case.boxes[*i].1.0)).collect();
    let step = &case.steps[0];
    for (k, i) in order.iter().enumerate() {
        let (a, bfrac) = step.sub[*i % step.sub.len()];
        let (lo, hi) = cur[k];
        let x = sample_in(lo, hi, a.min(bfrac));
        let y = sample_in(lo, hi, a.max(bfrac));
        cur[k] = (x.min(y), x.max(y));
    }
    println!("box {cur:?}");
    let t = f.interval_tape(Default::default());
    let mut e = VmFunction::new_interval_eval();
    let iv: Vec<Interval> = cur.iter().map(|(l, u)| Interval::new(*l, *u)).collect();
    let (o, tr) = e.eval(&t, &iv).unwrap();
    println!("interval out {o:?} trace {:?}", tr.map(|t| t.as_slice().to_vec()));
    if let Some(tr) = tr {
        let mut ws = Default::default();
        let c = f.simplify(tr, Default::default(), &mut ws).unwrap();
        println!("--- child");
        c.data().pretty_print();
    }
}
