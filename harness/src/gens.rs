//! Shared proptest strategies
use crate::spec::*;
use proptest::collection::vec;
use proptest::prelude::*;
use proptest::strategy::BoxedStrategy;

pub const SPECIALS: [f32; 40] = [
    0.0,
    -0.0,
    1.0,
    -1.0,
    2.0,
    -2.0,
    0.5,
    -0.5,
    f32::INFINITY,
    f32::NEG_INFINITY,
    f32::NAN,
    f32::MIN_POSITIVE,
    1e-40,
    -1e-40,
    f32::MAX,
    f32::MIN,
    std::f32::consts::PI,
    std::f32::consts::FRAC_PI_2,
    -std::f32::consts::PI,
    1e10,
    -1e10,
    3.0,
    4.0,
    1.5,
    2.5,
    -1.5,
    -2.5,
    0.25,
    100.0,
    1e-10,
    1e20,
    -1e20,
    0.75,
    -3.0,
    // rounding boundaries: the largest float below one half, odd integers
    // where the spacing of floats is 1, the first float spacing of 2
    0.49999997,
    -0.49999997,
    8388609.0,
    -8388609.0,
    16777216.0,
    -16777216.0,
];

pub fn fl_special() -> BoxedStrategy<Fl> {
    (0..SPECIALS.len()).prop_map(|i| Fl(SPECIALS[i])).boxed()
}

pub fn fl_uniform(lo: f32, hi: f32) -> BoxedStrategy<Fl> {
    (0u32..=1_000_000)
        .prop_map(move |i| Fl(lo + (hi - lo) * (i as f32 / 1_000_000.0)))
        .boxed()
}

/// Log-uniform magnitudes with random sign, 1e-30 ..= 1e30
pub fn fl_log() -> BoxedStrategy<Fl> {
    (any::<bool>(), -3000i32..=3000, 1000u32..10000)
        .prop_map(|(s, e, m)| {
            let v = (m as f32 / 1000.0) * 10f32.powf(e as f32 / 100.0);
            Fl(if s { -v } else { v })
        })
        .boxed()
}

pub fn fl_bits() -> BoxedStrategy<Fl> {
    any::<u32>().prop_map(|b| Fl(f32::from_bits(b))).boxed()
}

/// Small integers and half-integers (hit floor/ceil/round/mod boundaries)
pub fn fl_grid() -> BoxedStrategy<Fl> {
    (-16i32..=16).prop_map(|i| Fl(i as f32 * 0.5)).boxed()
}

/// The full pool: special values, uniform, log-uniform, arbitrary bits
pub fn fl_any() -> BoxedStrategy<Fl> {
    prop_oneof![
        4 => fl_special(),
        4 => fl_uniform(-4.0, 4.0),
        2 => fl_grid(),
        2 => fl_log(),
        1 => fl_bits(),
    ]
    .boxed()
}

/// Finite values only (incl. denormals, f32::MAX)
pub fn fl_finite() -> BoxedStrategy<Fl> {
    fl_any()
        .prop_map(|f| {
            if f.0.is_finite() {
                f
            } else if f.0.is_nan() {
                Fl(0.375)
            } else {
                Fl(f32::MAX.copysign(f.0))
            }
        })
        .boxed()
}

/// Moderate finite values
pub fn fl_moderate() -> BoxedStrategy<Fl> {
    prop_oneof![
        4 => fl_uniform(-4.0, 4.0),
        2 => fl_grid(),
        1 => fl_uniform(-100.0, 100.0),
    ]
    .boxed()
}

////////////////////////////////////////////////////////////////////////////////

#[derive(Clone)]
pub struct DagParams {
    pub min_nodes: usize,
    pub max_nodes: usize,
    pub min_vars: u8,
    pub max_vars: u8,
    pub un: Vec<(u32, UnOp)>,
    pub bin: Vec<(u32, BinOp)>,
    pub consts: BoxedStrategy<Fl>,
    pub w_const: u32,
    pub w_un: u32,
    pub w_bin: u32,
}

impl DagParams {
    /// All opcodes, equal weights
    pub fn all(max_nodes: usize) -> Self {
        DagParams {
            min_nodes: 1,
            max_nodes,
            min_vars: 1,
            max_vars: 6,
            un: ALL_UN.iter().map(|o| (1, *o)).collect(),
            bin: ALL_BIN.iter().map(|o| (2, *o)).collect(),
            consts: fl_any(),
            w_const: 3,
            w_un: 7,
            w_bin: 10,
        }
    }
    pub fn boost_choices(mut self, w: u32) -> Self {
        for (k, o) in self.bin.iter_mut() {
            if o.is_choice() {
                *k = w;
            }
        }
        self
    }
    pub fn only(mut self, un: &[UnOp], bin: &[BinOp]) -> Self {
        self.un.retain(|(_, o)| un.contains(o));
        self.bin.retain(|(_, o)| bin.contains(o));
        self
    }
    pub fn without(mut self, un: &[UnOp], bin: &[BinOp]) -> Self {
        self.un.retain(|(_, o)| !un.contains(o));
        self.bin.retain(|(_, o)| !bin.contains(o));
        self
    }
}

fn weighted<T: Copy + std::fmt::Debug + 'static>(v: &[(u32, T)]) -> BoxedStrategy<T> {
    let total: u32 = v.iter().map(|(w, _)| *w).sum();
    let v = v.to_vec();
    (0..total.max(1))
        .prop_map(move |mut r| {
            for (w, t) in &v {
                if r < *w {
                    return *t;
                }
                r -= *w;
            }
            v[0].1
        })
        .boxed()
}

/// Raw selector -> selector biased towards recently created nodes
fn recent(r: u16) -> u16 {
    let r = r as u64;
    65535 - ((r * r * r) >> 32).min(65535) as u16
}

/// Applies the shape mode to a raw selector: 0 = uniform, 1 = recent-biased
/// (deep chains), 2 = mixed (decided by the low bit)
fn shape(mode: u8, raw: u16) -> u16 {
    match mode {
        0 => raw,
        1 => recent(raw),
        _ => {
            if raw & 1 == 0 {
                raw
            } else {
                recent(raw)
            }
        }
    }
}

/// A node with *raw* selectors (shaped later, so no flat_map is needed and
/// proptest can shrink the whole program as one value)
pub fn node(p: &DagParams) -> BoxedStrategy<NodeSpec> {
    let mut alts: Vec<(u32, BoxedStrategy<NodeSpec>)> = vec![];
    if p.w_const > 0 {
        alts.push((p.w_const, p.consts.clone().prop_map(NodeSpec::C).boxed()));
    }
    if p.w_un > 0 && !p.un.is_empty() {
        alts.push((
            p.w_un,
            (weighted(&p.un), any::<u16>())
                .prop_map(|(o, a)| NodeSpec::U(o, a))
                .boxed(),
        ));
    }
    if p.w_bin > 0 && !p.bin.is_empty() {
        alts.push((
            p.w_bin,
            (weighted(&p.bin), any::<u16>(), any::<u16>())
                .prop_map(|(o, a, b)| NodeSpec::B(o, a, b))
                .boxed(),
        ));
    }
    proptest::strategy::Union::new_weighted(alts).boxed()
}

/// "Fan-in then consume in reverse": k leaves that all stay live while a chain
/// consumes them last-to-first.  Forces spills when k exceeds the register
/// budget.
fn fan_in(p: DagParams, nvars: u8) -> BoxedStrategy<DagSpec> {
    let kmax = (p.max_nodes / 3).max(2);
    let leaf = (weighted(&p.bin), any::<u16>(), p.consts.clone(), any::<bool>());
    let link = weighted(&p.bin);
    vec((leaf, link), 2..=kmax)
        .prop_map(move |items| {
            let nv = nvars as usize;
            let k = items.len();
            let mut nodes = vec![];
            // leaves: [C_i, L_i = op(var, C_i)] pairs
            for (i, ((op, v, c, swap), _)) in items.iter().enumerate() {
                nodes.push(NodeSpec::C(*c));
                let len = nv + 2 * i + 1;
                let ci = sel_for(len - 1, len);
                let vi = *v; // some variable or earlier node
                nodes.push(if *swap {
                    NodeSpec::B(*op, ci, vi)
                } else {
                    NodeSpec::B(*op, vi, ci)
                });
            }
            // chain consuming leaves in reverse
            for (j, (_, link)) in items.iter().enumerate() {
                let len = nv + 2 * k + j;
                let leaf_idx = nv + 2 * (k - 1 - j) + 1;
                let prev = if j == 0 {
                    sel_for(nv + 1, len) // leaf 0 again
                } else {
                    sel_for(len - 1, len)
                };
                nodes.push(NodeSpec::B(*link, prev, sel_for(leaf_idx, len)));
            }
            DagSpec { nvars, nodes }
        })
        .boxed()
}

/// Wide programs: `k` leaves that all stay live until a reverse chain consumes
/// them (more than 256 live values need slot indices beyond a byte, whatever
/// the register budget).  With `own_var`, leaf i reads variable i, so the
/// function has `k` variables (more than 32 need input offsets beyond a signed
/// byte in native code); `nvars` is then ignored.
pub fn dag_wide(p: DagParams, nvars: std::ops::RangeInclusive<u8>, k: std::ops::RangeInclusive<usize>, own_var: bool) -> BoxedStrategy<DagSpec> {
    let leaf = (weighted(&p.bin), any::<u16>(), p.consts.clone(), any::<bool>());
    let link = weighted(&p.bin);
    (nvars, vec((leaf, link), k))
        .prop_map(move |(nvars, items)| {
            let k = items.len();
            let nvars = if own_var { k.min(255) as u8 } else { nvars.max(1) };
            let nv = nvars as usize;
            let mut nodes = vec![];
            for (i, ((op, v, c, swap), _)) in items.iter().enumerate() {
                nodes.push(NodeSpec::C(*c));
                let len = nv + 2 * i + 1;
                let ci = sel_for(len - 1, len);
                let vi = if own_var { sel_for(i % nv, len) } else { sel_for(sel_index(*v, nv), len) };
                nodes.push(if *swap { NodeSpec::B(*op, ci, vi) } else { NodeSpec::B(*op, vi, ci) });
            }
            for (j, (_, link)) in items.iter().enumerate() {
                let len = nv + 2 * k + j;
                let leaf_idx = nv + 2 * (k - 1 - j) + 1;
                let prev = if j == 0 { sel_for(nv + 1, len) } else { sel_for(len - 1, len) };
                nodes.push(NodeSpec::B(*link, prev, sel_for(leaf_idx, len)));
            }
            DagSpec { nvars, nodes }
        })
        .boxed()
}

/// Extends 8-coordinate points to `nvars` coordinates (coordinate i >= 8 is a
/// deterministic function of coordinate i % 8 and i), for many-variable programs
pub fn widen_points(points: &[Vec<Fl>], nvars: usize) -> Vec<Vec<Fl>> {
    points
        .iter()
        .map(|p| {
            let mut q = p.clone();
            let base = p.len().max(1);
            for i in p.len()..nvars {
                let v = p.get(i % base).map(|f| f.0).unwrap_or(0.5);
                // keep special values special; shift ordinary ones a little
                q.push(Fl(if v.is_finite() && v != 0.0 { v + (i / base) as f32 * 0.25 } else { v }));
            }
            q
        })
        .collect()
}

pub fn dag(p: DagParams) -> BoxedStrategy<DagSpec> {
    let plain = (
        0u8..=2,
        p.min_vars..=p.max_vars,
        vec(node(&p), p.min_nodes..=p.max_nodes),
        any::<u16>(),
    )
        .prop_map(|(mode, nvars, nodes, coin)| {
            // exact coincidences between independently chosen constants: in a
            // quarter of the programs some constants repeat the previous
            // constant of the program bit for bit (or its negation)
            let mut prev: Option<Fl> = None;
            let mut k = 0u32;
            let nodes = nodes
                .into_iter()
                .map(|n| match n {
                    NodeSpec::C(c) => {
                        let mut c = c;
                        if coin % 4 == 0 {
                            if let Some(q) = prev {
                                match (coin >> (2 + 2 * (k % 7))) & 3 {
                                    0 | 1 => c = q,
                                    2 => c = Fl(-q.0),
                                    _ => {}
                                }
                            }
                            k += 1;
                        }
                        prev = Some(c);
                        NodeSpec::C(c)
                    }
                    NodeSpec::U(o, a) => NodeSpec::U(o, shape(mode, a)),
                    NodeSpec::B(o, a, b) => {
                        NodeSpec::B(o, shape(mode, a), shape(mode, b))
                    }
                })
                .collect();
            DagSpec { nvars, nodes }
        })
        .boxed();
    if p.max_nodes >= 6 && !p.bin.is_empty() && p.max_vars > 0 {
        let nv = p.min_vars.max(1)..=p.max_vars;
        let p2 = p.clone();
        let fan = nv.prop_flat_map(move |nvars| fan_in(p2.clone(), nvars)).boxed();
        prop_oneof![3 => plain, 1 => fan].boxed()
    } else {
        plain
    }
}

pub fn point(n: usize, f: BoxedStrategy<Fl>) -> BoxedStrategy<Vec<Fl>> {
    vec(f, n..=n).boxed()
}

pub fn points(npts: std::ops::RangeInclusive<usize>, f: BoxedStrategy<Fl>) -> BoxedStrategy<Vec<Vec<Fl>>> {
    // always 8 coordinates; the first `nvars` are used
    vec(vec(f, 8..=8), npts).boxed()
}

/// Exact coincidences between inputs and the program's own constants: in every
/// third point, some coordinates take the value of a constant of the program
/// bit for bit (a deterministic function of the generated case, so shrinking
/// and replay are unaffected)
pub fn coincide(dag: &DagSpec, mut points: Vec<Vec<Fl>>) -> Vec<Vec<Fl>> {
    let consts: Vec<Fl> = dag
        .nodes
        .iter()
        .filter_map(|n| if let NodeSpec::C(c) = n { Some(*c) } else { None })
        .collect();
    if consts.is_empty() {
        return points;
    }
    for (i, p) in points.iter_mut().enumerate() {
        if i % 3 != 2 {
            continue;
        }
        for (j, v) in p.iter_mut().enumerate() {
            if (i + j) % 2 == 0 {
                *v = consts[(i * 7 + j * 3) % consts.len()];
            }
        }
    }
    points
}

/// Exact coincidences between box bounds and the program's own constants: in
/// every third case (decided by the bits of the first box), bounds of some boxes
/// take the value of a finite constant of the program bit for bit (or its
/// negation), keeping lower <= upper; a deterministic function of the case
pub fn coincide_boxes(dag: &DagSpec, mut boxes: Vec<(Fl, Fl)>, finite_max: f32) -> Vec<(Fl, Fl)> {
    let consts: Vec<f32> = dag
        .nodes
        .iter()
        .filter_map(|n| if let NodeSpec::C(c) = n { Some(c.0) } else { None })
        .filter(|c| c.is_finite() && c.abs() <= finite_max)
        .collect();
    if consts.is_empty() || boxes.is_empty() {
        return boxes;
    }
    let h = boxes[0].0.0.to_bits().wrapping_mul(0x9E37_79B9) ^ boxes[0].1.0.to_bits();
    if h % 3 != 0 {
        return boxes;
    }
    for (i, b) in boxes.iter_mut().enumerate() {
        let k = (h >> 3) as usize + i * 5;
        let mut c = consts[k % consts.len()];
        if (k / consts.len()) % 4 == 3 {
            c = -c;
        }
        match (h >> (8 + 2 * (i % 8))) & 3 {
            // lower bound on the constant
            0 if c <= b.1.0 => b.0 = Fl(c),
            // upper bound on the constant
            1 if c >= b.0.0 => b.1 = Fl(c),
            // degenerate box at the constant
            2 if i % 2 == 0 => *b = (Fl(c), Fl(c)),
            _ => {}
        }
    }
    boxes
}
