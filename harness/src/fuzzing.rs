//! Coverage-guided entry point (libFuzzer target in `fuzz/`).
//!
//! The fuzzer's bytes are used as the *random stream* of the property's own
//! proptest strategy (proptest's pass-through RNG), so every input decodes to a
//! valid case of the same generator the random campaign uses, libFuzzer's
//! mutations become mutations of generator choices, and coverage feedback from
//! the instrumented library (allocator, simplifier, assembler, importers ...)
//! steers them.  The oracle is the property's ordinary `check`.
use crate::engine::*;
use proptest::strategy::{Strategy, ValueTree};
use proptest::test_runner::{Config, RngAlgorithm, TestRng, TestRunner};
use serde_json::Value;
use std::path::PathBuf;

/// Case sizes of the quick tier by default (more executions per second, hence
/// more coverage feedback); FV_FUZZ_TIER=thorough selects the larger specs
pub fn fuzz_tier() -> Tier {
    match std::env::var("FV_FUZZ_TIER").as_deref() {
        Ok("thorough") => Tier::Thorough,
        _ => Tier::Quick,
    }
}

pub struct FuzzState<P: Prop> {
    strategy: proptest::strategy::BoxedStrategy<P::Case>,
    known: Known,
    pub ev: Evidence,
    pub rejected: u64,
    pub out_dir: PathBuf,
}

/// Decodes libFuzzer bytes into a case of `P` (None: the generator rejected)
pub fn decode<P: Prop>(strategy: &proptest::strategy::BoxedStrategy<P::Case>, data: &[u8]) -> Option<P::Case> {
    // The pass-through RNG yields zeros once its bytes are used up, and
    // rand's uniform integer sampling rejects 0 for every range that is not a
    // power of two -- it would spin forever.  A fixed pseudo-random tail keeps
    // decoding total and deterministic: the fuzzer's bytes decide the first
    // choices, the tail completes the case.
    static TAIL: std::sync::OnceLock<Vec<u8>> = std::sync::OnceLock::new();
    let tail = TAIL.get_or_init(|| {
        let mut x = 0x9e3779b97f4a7c15u64;
        let mut v = Vec::with_capacity(1 << 20);
        while v.len() < (1 << 20) {
            x = splitmix(x);
            v.extend_from_slice(&x.to_le_bytes());
        }
        v
    });
    let mut bytes = Vec::with_capacity(data.len() + tail.len());
    bytes.extend_from_slice(data);
    bytes.extend_from_slice(tail);
    let rng = TestRng::from_seed(RngAlgorithm::PassThrough, &bytes);
    let cfg = Config {
        failure_persistence: None,
        max_local_rejects: 64,
        max_global_rejects: 64,
        ..Config::default()
    };
    let mut runner = TestRunner::new_with_rng(cfg, rng);
    strategy.new_tree(&mut runner).ok().map(|t| t.current())
}

impl<P: Prop> FuzzState<P> {
    pub fn new(out_dir: PathBuf) -> Self {
        install_quiet_panic_hook();
        FuzzState {
            strategy: P::strategy(fuzz_tier()),
            known: Known::load(),
            ev: Evidence::default(),
            rejected: 0,
            out_dir,
        }
    }

    /// Runs one input; on a violation writes the replay file and returns its path
    pub fn one(&mut self, data: &[u8]) -> Option<PathBuf> {
        let Some(case) = decode::<P>(&self.strategy, data) else {
            self.rejected += 1;
            return None;
        };
        self.ev.evaluations += 1;
        let mut cx = Cx {
            prop: P::ID,
            ev: &mut self.ev,
            known: &self.known,
            tier: fuzz_tier(),
            strict: false,
        };
        match run_check::<P>(&case, &mut cx) {
            Ok(()) => None,
            Err(f) => {
                // no proptest value tree here, so only the property's own
                // reduction passes are applied (same loop as the workers')
                let (mut case, mut f) = (case, f);
                let mut scratch = Evidence::default();
                scratch.frozen = true;
                let mut cx = Cx {
                    prop: P::ID,
                    ev: &mut scratch,
                    known: &self.known,
                    tier: fuzz_tier(),
                    strict: false,
                };
                let mut budget = 400;
                'outer: while budget > 0 {
                    for cand in P::reduce(&case) {
                        budget -= 1;
                        if let Err(f2) = run_check::<P>(&cand, &mut cx) {
                            if f2.sig == f.sig {
                                case = cand;
                                f = f2;
                                continue 'outer;
                            }
                        }
                        if budget == 0 {
                            break;
                        }
                    }
                    break;
                }
                let v = serde_json::to_value(&case).unwrap();
                Some(write_replay(P::ID, &f.sig, &f.msg, &v))
            }
        }
    }

    /// Evidence of this campaign (merged into evidence/<id>.json by `fv fuzz-merge`)
    pub fn dump(&self) {
        let v = serde_json::json!({
            "executions_decoded": self.ev.evaluations,
            "inputs_rejected_by_generator": self.rejected,
            "distinct_nontrivial": self.ev.nontrivial.len(),
            "nontrivial_fingerprints": self.ev.nontrivial,
            "classes": self.ev.counters,
            "known_finding_hits_excluded": self.ev.known_hits,
            "samples": self.ev.samples,
        });
        let name = format!("fuzz_evidence.{}.json", std::process::id());
        let _ = std::fs::write(self.out_dir.join(name), serde_json::to_string_pretty(&v).unwrap());
    }
}

/// `fv fuzz-decode <ID> <artifact>`: the case a crashing libFuzzer input decodes to
pub fn decode_to_value<P: Prop>(data: &[u8]) -> Option<Value> {
    let s = P::strategy(fuzz_tier());
    decode::<P>(&s, data).map(|c| serde_json::to_value(&c).unwrap())
}
