//! Coverage-guided entry point (libFuzzer target in `fuzz/`).
//!
//! The fuzzer's bytes are used as the *random stream* of the property's own
//! proptest strategy (proptest's pass-through RNG), so every input decodes to a
//! valid case of the same generator the random campaign uses, libFuzzer's
//! mutations become mutations of generator choices, and coverage feedback from
//! the instrumented library (allocator, simplifier, assembler, importers ...)
//! steers them.  The oracle is the property's ordinary `check`.
use crate::engine::*;
use proptest::strategy::{Strategy, ValueTree};
use proptest::test_runner::{Config, RngAlgorithm, TestRng, TestRunner};
use serde_json::Value;
use std::path::PathBuf;

pub struct FuzzState<P: Prop> {
    strategy: proptest::strategy::BoxedStrategy<P::Case>,
    known: Known,
    pub ev: Evidence,
    pub rejected: u64,
    pub out_dir: PathBuf,
}

/// Decodes libFuzzer bytes into a case of `P` (None: the generator rejected)
pub fn decode<P: Prop>(strategy: &proptest::strategy::BoxedStrategy<P::Case>, data: &[u8]) -> Option<P::Case> {
    let rng = TestRng::from_seed(RngAlgorithm::PassThrough, data);
    let cfg = Config {
        failure_persistence: None,
        max_local_rejects: 64,
        max_global_rejects: 64,
        ..Config::default()
    };
    let mut runner = TestRunner::new_with_rng(cfg, rng);
    strategy.new_tree(&mut runner).ok().map(|t| t.current())
}

impl<P: Prop> FuzzState<P> {
    pub fn new(out_dir: PathBuf) -> Self {
        install_quiet_panic_hook();
        FuzzState {
            strategy: P::strategy(Tier::Thorough),
            known: Known::load(),
            ev: Evidence::default(),
            rejected: 0,
            out_dir,
        }
    }

    /// Runs one input; on a violation writes the replay file and returns its path
    pub fn one(&mut self, data: &[u8]) -> Option<PathBuf> {
        let Some(case) = decode::<P>(&self.strategy, data) else {
            self.rejected += 1;
            return None;
        };
        self.ev.evaluations += 1;
        let mut cx = Cx {
            prop: P::ID,
            ev: &mut self.ev,
            known: &self.known,
            tier: Tier::Thorough,
            strict: false,
        };
        match run_check::<P>(&case, &mut cx) {
            Ok(()) => None,
            Err(f) => {
                let v = serde_json::to_value(&case).unwrap();
                Some(write_replay(P::ID, &f.sig, &f.msg, &v))
            }
        }
    }

    /// Evidence of this campaign (merged into evidence/<id>.json by `fv fuzz-merge`)
    pub fn dump(&self) {
        let v = serde_json::json!({
            "executions_decoded": self.ev.evaluations,
            "inputs_rejected_by_generator": self.rejected,
            "distinct_nontrivial": self.ev.nontrivial.len(),
            "classes": self.ev.counters,
            "known_finding_hits_excluded": self.ev.known_hits,
            "samples": self.ev.samples,
        });
        let _ = std::fs::write(self.out_dir.join("fuzz_evidence.json"), serde_json::to_string_pretty(&v).unwrap());
    }
}

/// `fv fuzz-decode <ID> <artifact>`: the case a crashing libFuzzer input decodes to
pub fn decode_to_value<P: Prop>(data: &[u8]) -> Option<Value> {
    let s = P::strategy(Tier::Thorough);
    decode::<P>(&s, data).map(|c| serde_json::to_value(&c).unwrap())
}
