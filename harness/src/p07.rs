//! C07 — 3D rendering equals the brute-force heightmap of the shape
use crate::build::*;
use crate::csg;
use crate::engine::*;
use crate::gens;
use crate::p06::{ShapeSpec, exact_dag, make_pool, tile_list_max};
use crate::refsem::same;
use crate::spec::*;
use crate::{ensure, fail};
use fidget_core::eval::MathFunction;
use fidget_core::render::{RenderHints, TileSizes, VoxelSize};
use fidget_core::shape::{EzShape, Shape, Transformable};
use fidget_core::types::Grad;
use fidget_core::vm::VmFunction;
use fidget_jit::JitFunction;
use fidget_raster::voxel::{EvalConfig, RenderConfig};
use nalgebra::{Matrix4, Rotation3, Unit, Vector3};
use proptest::prelude::*;
use serde::{Deserialize, Serialize};

#[derive(Clone, Debug, Serialize, Deserialize)]
pub struct Case {
    pub shape: ShapeSpec,
    pub size: (u32, u32, u32),
    /// rotation axis, angle (tenths of a degree), scale, translation
    pub xform: Option<([Fl; 3], u32, Fl, [Fl; 3])>,
    pub tiles: Option<Vec<usize>>,
    pub jit: bool,
    pub threads: u8,
    /// perspective along z in thousandths: bottom row (0, 0, p, 1) of
    /// world_to_model (what the viewers build), limited so that the
    /// homogeneous coordinate stays positive over the whole grid
    #[serde(default)]
    pub persp: u16,
}

pub struct P;

pub fn screen_to_world_3d(w: u32, h: u32, d: u32) -> Matrix4<f32> {
    let cx = w as f32 / 2.0;
    let cy = h as f32 / 2.0 - 1.0;
    let cz = d as f32 / 2.0;
    let s = 2.0 / (w.min(h).min(d) as f32);
    Matrix4::new(
        s, 0.0, 0.0, -cx * s, //
        0.0, -s, 0.0, -cy * -s, //
        0.0, 0.0, s, -cz * s, //
        0.0, 0.0, 0.0, 1.0,
    )
}

pub fn world_to_model(x: &Option<([Fl; 3], u32, Fl, [Fl; 3])>) -> Matrix4<f32> {
    match x {
        None => Matrix4::identity(),
        Some((axis, ang, scale, t)) => {
            let a = Vector3::new(axis[0].0, axis[1].0, axis[2].0);
            let a = if a.norm() < 1e-3 {
                Vector3::new(0.0, 0.0, 1.0)
            } else {
                a
            };
            let r = Rotation3::from_axis_angle(
                &Unit::new_normalize(a),
                (*ang as f32 / 10.0).to_radians(),
            );
            Matrix4::new_translation(&Vector3::new(t[0].0, t[1].0, t[2].0))
                * r.to_homogeneous()
                * Matrix4::new_scaling(scale.0)
        }
    }
}

pub fn xform_strategy() -> BoxedStrategy<Option<([Fl; 3], u32, Fl, [Fl; 3])>> {
    let c = || gens::fl_uniform(-1.0, 1.0);
    let t = || gens::fl_uniform(-0.5, 0.5);
    prop_oneof![
        1 => Just(None),
        3 => ([c(), c(), c()], 0u32..3600, gens::fl_uniform(0.5, 2.0), [t(), t(), t()]).prop_map(Some),
    ]
    .boxed()
}

fn run<F: MathFunction + RenderHints>(case: &Case, cx: &mut Cx) -> CheckResult {
    let (ctx, root) = case.shape.build();
    let shape = Shape::<F>::new(&ctx, root).unwrap();
    let (w, h, d) = case.size;
    let size = VoxelSize::new(w, h, d);
    let mut w2m = world_to_model(&case.xform);
    if case.persp > 0 {
        // world z spans +- d / min(w, h, d)
        let zmax = d as f32 / (w.min(h).min(d) as f32);
        let p = (case.persp as f32 / 1000.0).min(0.8 / zmax);
        let mut persp = Matrix4::identity();
        persp[(3, 2)] = p;
        w2m = w2m * persp;
        cx.ev.count("perspective_views");
    }
    let cfg = RenderConfig {
        image_size: size,
        world_to_model: w2m,
    };
    let s2w = size.screen_to_world();
    let mine = screen_to_world_3d(w, h, d);
    for r in 0..4 {
        for c in 0..4 {
            ensure!(
                s2w[(r, c)] == mine[(r, c)],
                "screen-to-world",
                "entry ({r},{c}) for {w}x{h}x{d}: {} vs documented {}",
                s2w[(r, c)],
                mine[(r, c)]
            );
        }
    }
    let mat = w2m * s2w;
    let pool = make_pool(case.threads);
    let tiles = match &case.tiles {
        None => None,
        Some(t) => match crate::p06::tile_sizes_checked(t, cx)? {
            Some(ts) => Some(ts),
            None => return Ok(()),
        },
    };
    let root_tile = {
        let list: Vec<usize> = match &case.tiles {
            Some(t) => t.clone(),
            None => F::tile_sizes_3d().iter().cloned().collect(),
        };
        let max = w.max(h) as usize;
        list.iter().cloned().filter(|t| *t >= max).min().unwrap_or(list[0])
    };
    let eval_cfg = EvalConfig {
        tile_sizes: tiles,
        threads: pool.as_ref(),
        cancel: Default::default(),
    };
    let bound = shape
        .clone()
        .try_into()
        .map_err(|_| Fail::new("harness", "free variables"))?;
    let image = fidget_raster::voxel::render::<F>(bound, &cfg, &eval_cfg)
        .ok_or_else(|| Fail::new("render-returned-none", "None without cancellation"))?;
    ensure!(
        image.len() == (w * h) as usize,
        "image-size",
        "{} pixels for {w}x{h}",
        image.len()
    );

    // brute force
    let flat = Flat::new(&ctx, &[root]);
    let ri = flat.index[&root];
    let d_ext = (d as usize).div_ceil(root_tile) * root_tile + 1;
    let mut vals = vec![];
    crate::p06::image_access(
        &image,
        w as usize,
        h as usize,
        |p| {
            ((p.depth as u128) << 96)
                | ((p.normal[0].to_bits() as u128) << 64)
                | ((p.normal[1].to_bits() as u128) << 32)
                | p.normal[2].to_bits() as u128
        },
        cx,
    )?;
    ensure!(
        image.as_bytes().len() == (w * h) as usize * 16,
        "image-bytes",
        "as_bytes() has {} bytes for {w}x{h} pixels of 16 bytes",
        image.as_bytes().len()
    );
    let data = image.as_slice();
    let mut depths_seen = std::collections::BTreeSet::new();
    let mut occluded_columns = 0u64;
    let mut surface = vec![]; // (pixel index, i, j, k)
    for j in 0..h as usize {
        for i in 0..w as usize {
            let mut top: Option<usize> = None;
            let mut beyond = false;
            let mut runs = 0;
            let mut prev_in = false;
            let mut tainted = false;
            // some voxel of the column has a NaN value born from an infinite
            // operand, which interval arithmetic does not see (finding F11)
            let mut nan_inf = false;
            for k in 0..d_ext {
                let (qx, qy, qz) =
                    <f32 as Transformable>::transform(i as f32, j as f32, k as f32, &mat);
                flat.eval_xyz(qx, qy, qz, &mut vals);
                let v = vals[ri];
                // a value the two back ends may legitimately disagree on
                // (zero-sign taint) cannot be judged for the JIT
                if v == 0.0 || v.is_nan() {
                    if flat.taint(&vals)[ri] {
                        tainted = true;
                    }
                }
                if v.is_nan() && flat.nan_from_inf(&vals) {
                    nan_inf = true;
                }
                let inside = v < 0.0;
                if inside {
                    if k < d as usize {
                        top = Some(k);
                    } else {
                        beyond = true;
                    }
                    if !prev_in {
                        runs += 1;
                    }
                }
                prev_in = inside;
            }
            let px = data[j * w as usize + i];
            if beyond {
                cx.ev.count("columns_outside_claim_inside_above_grid");
                continue;
            }
            if tainted {
                cx.ev.count("columns_skipped_tainted");
                continue;
            }
            cx.ev.count("columns_checked");
            let expected = top.map(|k| k as u32 + 1).unwrap_or(0);
            if px.depth != expected && nan_inf {
                if cx.known("F11-tile-decided-over-nan-from-infinity") {
                    continue;
                }
                fail!(
                    "F11-tile-decided-over-nan-from-infinity",
                    "pixel ({i},{j}): depth {} but brute force gives {expected}; a voxel of this column has a NaN value born from an infinite operand, which the interval evaluator does not see",
                    px.depth
                );
            }
            if px.depth != expected {
                fail!(
                    "depth-wrong",
                    "pixel ({i},{j}) of {w}x{h}x{d} (root tile {root_tile}): depth {} but brute force gives {expected}",
                    px.depth
                );
            }
            depths_seen.insert(expected);
            if runs >= 2 {
                occluded_columns += 1;
            }
            if expected == d {
                ensure!(
                    px.normal == [0.0, 0.0, 1.0],
                    "saturated-normal",
                    "pixel ({i},{j}) is saturated (depth {d}) but its normal is {:?}",
                    px.normal
                );
            } else if expected == 0 {
                ensure!(
                    px.normal == [0.0, 0.0, 0.0],
                    "empty-normal",
                    "pixel ({i},{j}) is empty but its normal is {:?}",
                    px.normal
                );
            } else {
                surface.push((j * w as usize + i, i, j, expected as usize - 1));
            }
        }
    }
    // normals: gradient of the *unsimplified* function at the surface voxel
    if !surface.is_empty() {
        let gtape = shape.ez_grad_slice_tape();
        let mut ge = Shape::<F>::new_grad_slice_eval();
        let xs: Vec<Grad> = surface
            .iter()
            .map(|s| Grad::new(s.1 as f32, 1.0, 0.0, 0.0))
            .collect();
        let ys: Vec<Grad> = surface
            .iter()
            .map(|s| Grad::new(s.2 as f32, 0.0, 1.0, 0.0))
            .collect();
        let zs: Vec<Grad> = surface
            .iter()
            .map(|s| Grad::new(s.3 as f32, 0.0, 0.0, 1.0))
            .collect();
        let g = ge
            .eval_with_transform(&gtape, &xs, &ys, &zs, &mat)
            .map_err(|e| Fail::new("grad-eval-error", format!("{e:?}")))?;
        let g = g.to_vec();
        // independent of the library's Grad transform: the model-space
        // gradient (unit seeds at the transformed position, no matrix) pushed
        // through the Jacobian of the voxel -> model map, computed in f64 by
        // the quotient rule
        let qs: Vec<(f32, f32, f32)> = surface
            .iter()
            .map(|s| <f32 as Transformable>::transform(s.1 as f32, s.2 as f32, s.3 as f32, &mat))
            .collect();
        let qx: Vec<Grad> = qs.iter().map(|q| Grad::new(q.0, 1.0, 0.0, 0.0)).collect();
        let qy: Vec<Grad> = qs.iter().map(|q| Grad::new(q.1, 0.0, 1.0, 0.0)).collect();
        let qz: Vec<Grad> = qs.iter().map(|q| Grad::new(q.2, 0.0, 0.0, 1.0)).collect();
        let gm = ge
            .eval(&gtape, &qx, &qy, &qz)
            .map_err(|e| Fail::new("grad-eval-error", format!("{e:?}")))?
            .to_vec();
        // (only for the CSG distance fields, whose partial derivatives are
        // bounded by 1 in every sub-expression: in a generated expression such
        // as x y / |x| the partials are huge and cancel, and the two orders of
        // evaluation legitimately differ by the rounding of that cancellation)
        let chain_rule = matches!(case.shape, ShapeSpec::Csg(_));
        for (n, s) in surface.iter().enumerate().filter(|_| chain_rule) {
            let px = data[s.0];
            let p = [s.1 as f64, s.2 as f64, s.3 as f64, 1.0];
            let m = |r: usize, c: usize| mat[(r, c)] as f64;
            let wq: f64 = (0..4).map(|c| m(3, c) * p[c]).sum();
            let q: Vec<f64> = (0..3).map(|r| (0..4).map(|c| m(r, c) * p[c]).sum::<f64>() / wq).collect();
            let gmod = [gm[n].dx as f64, gm[n].dy as f64, gm[n].dz as f64];
            for k in 0..3 {
                let terms: Vec<f64> = (0..3).map(|i| gmod[i] * (m(i, k) - q[i] * m(3, k)) / wq).collect();
                let want: f64 = terms.iter().sum();
                // each Jacobian entry is itself a difference (m_ik - q_i m_3k):
                // the tolerance is relative to the magnitudes that enter it
                let mag: f64 = (0..3)
                    .map(|i| gmod[i].abs() * (m(i, k).abs() + (q[i] * m(3, k)).abs()) / wq.abs())
                    .sum();
                let got = px.normal[k] as f64;
                if !(want.is_finite() && got.is_finite() && mag.is_finite()) {
                    cx.ev.count("chain_rule_normals_skipped_non_finite");
                    continue;
                }
                cx.ev.count("chain_rule_normal_components_checked");
                if (got - want).abs() > 1e-3 * mag + 1e-6 {
                    let (tx, ty, tz) = qs[n];
                    flat.eval_xyz(tx, ty, tz, &mut vals);
                    if flat.taint(&vals)[ri] {
                        cx.ev.count("normals_skipped_tainted");
                        continue;
                    }
                    fail!(
                        "normal-chain-rule",
                        "pixel ({},{}) depth {}: normal component {k} is {got} but the model-space gradient {:?} through the Jacobian of the view map gives {want} (sum of magnitudes {mag}; model position {:?}, w {wq}, matrix column {k}: {:?}; library gradient with the same matrix {:?})",
                        s.1,
                        s.2,
                        s.3 + 1,
                        gmod,
                        q,
                        (0..4).map(|r| m(r, k)).collect::<Vec<_>>(),
                        g[n]
                    );
                }
            }
        }
        for (n, s) in surface.iter().enumerate() {
            let px = data[s.0];
            let e = [g[n].dx, g[n].dy, g[n].dz];
            cx.ev.count("normals_checked");
            if !(0..3).all(|c| same(px.normal[c], e[c])) {
                // tolerated only if a zero-sign / abs(-0) taint is upstream
                let (qx, qy, qz) = <f32 as Transformable>::transform(
                    s.1 as f32, s.2 as f32, s.3 as f32, &mat,
                );
                flat.eval_xyz(qx, qy, qz, &mut vals);
                if flat.taint(&vals)[ri] {
                    cx.ev.count("normals_skipped_tainted");
                    continue;
                }
                fail!(
                    "normal-wrong",
                    "pixel ({},{}) depth {}: normal {:?} but the gradient at voxel ({},{},{}) is {:?}",
                    s.1,
                    s.2,
                    s.3 + 1,
                    px.normal,
                    s.1,
                    s.2,
                    s.3,
                    e
                );
            }
        }
    }
    cx.ev.add("occluded_columns", occluded_columns);
    if d as usize % root_tile != 0 {
        cx.ev.count("depth_not_multiple_of_root_tile");
    }
    let nz: Vec<_> = depths_seen.iter().filter(|d| **d != 0).collect();
    if nz.len() >= 2 && occluded_columns > 0 {
        cx.ev.nontrivial(case);
    }
    Ok(())
}

impl Prop for P {
    const ID: &'static str = "C07";
    type Case = Case;

    fn strategy(tier: Tier) -> BoxedStrategy<Case> {
        let dim = tier.pick(32u32, 48u32);
        let shape = prop_oneof![
            6 => csg::csg(4, 1.0, 0.1, 0.7, true).prop_map(ShapeSpec::Csg),
            2 => (exact_dag(tier.pick(25, 50)), any::<u16>())
                .prop_map(|(dag, out)| ShapeSpec::Dag { dag, out }),
            1 => (0u8..tier.pick(3, 5)).prop_map(ShapeSpec::Model),
        ];
        (
            shape,
            (1u32..=dim, 1u32..=dim, 1u32..=dim),
            xform_strategy(),
            prop_oneof![3 => Just(None), 9 => tile_list_max(64).prop_map(Some), 1 => crate::p06::tile_list_any().prop_map(Some)],
            any::<bool>(),
            prop_oneof![4 => Just(0u8), 2 => Just(1u8), 1 => 2u8..=5],
            prop_oneof![3 => Just(0u16), 1 => Just(300u16), 1 => Just(10u16), 2 => 1u16..=500],
        )
            .prop_map(|(shape, size, xform, tiles, jit, threads, persp)| Case {
                shape,
                size,
                xform,
                tiles,
                jit,
                threads,
                persp,
            })
            .boxed()
    }

    fn check(case: &Case, cx: &mut Cx) -> CheckResult {
        // tile lists whose leaf is large make the per-tile scratch (size^3)
        // huge; the renderer handles it, but keep the leaf <= 16
        if case.jit {
            cx.ev.count("backend_jit");
            run::<JitFunction>(case, cx)
        } else {
            cx.ev.count("backend_vm");
            run::<VmFunction>(case, cx)
        }
    }

    fn reduce(case: &Case) -> Vec<Case> {
        let mut out = vec![];
        let mut c = case.clone();
        c.threads = 0;
        out.push(c);
        if case.xform.is_some() {
            let mut c = case.clone();
            c.xform = None;
            out.push(c);
        }
        if case.jit {
            let mut c = case.clone();
            c.jit = false;
            out.push(c);
        }
        let (w, h, d) = case.size;
        for s in [(w / 2, h, d), (w, h / 2, d), (w, h, d / 2), (w, h, d.saturating_sub(1))] {
            if s.0 >= 1 && s.1 >= 1 && s.2 >= 1 && s != case.size {
                let mut c = case.clone();
                c.size = s;
                out.push(c);
            }
        }
        out
    }

    fn plan(tier: Tier) -> Plan {
        match tier {
            Tier::Quick => Plan {
                workers: 16,
                cases_per_worker: 1200,
                timeout_s: 1800,
                max_shrink_iters: 300,
            },
            Tier::Thorough => Plan {
                workers: 16,
                cases_per_worker: 20000,
                timeout_s: 14400,
                max_shrink_iters: 300,
            },
        }
    }

    fn rule() -> &'static str {
        "generated scenes: CSG of spheres / boxes / cylinders / half-spaces (several objects overlapping along z), random \
         exact-alphabet DAGs or bundled models; voxel grid width, height, depth independently in 1..=32 (thorough 48); \
         world-to-model = identity or translate*rotate(any axis)*scale; tile list default or generated; interpreter or JIT; \
         no pool / global / custom pool. Oracle: every voxel of the grid, extended to the next multiple of the root tile \
         plus one, is evaluated with the graph at mat*(i,j,k) (mat rebuilt from the documented screen-to-world map); \
         columns with an inside voxel at k >= depth are outside the claim; otherwise the pixel depth must be 1 + highest \
         inside k (0 if none), a saturated pixel has normal (0,0,1), an empty one (0,0,0), and any other pixel's normal \
         must equal bit-for-bit the gradient evaluator's result on the UNSIMPLIFIED function at voxel (i,j,depth-1). \
         Non-trivial = at least two distinct non-zero depths and a column where a nearer object hides a farther one."
    }

    fn assumptions() -> Vec<&'static str> {
        vec![
            "normals are compared bit-for-bit with the library's own gradient evaluator on the unsimplified function under the same matrix, and with the model-space gradient (unit seeds, no matrix) pushed through the f64 quotient-rule Jacobian of the voxel -> model map within 1e-3 of the summed magnitudes (C05 ties the model-space gradient to the true derivative)",
        ]
    }
}
