//! C11 — evaluation is total: finite inputs never crash an evaluator
use crate::build::*;
use crate::engine::*;
use crate::gens;
use crate::p03::sample_in;
use crate::spec::*;
use crate::{ensure, fail};
use fidget_core::eval::{BulkEvaluator, MathFunction, TracingEvaluator};
use fidget_core::shape::{EzShape, Shape, ShapeVars};
use fidget_core::types::{Grad, Interval};
use fidget_core::vm::VmFunction;
use fidget_jit::JitFunction;
use proptest::collection::vec;
use proptest::prelude::*;
use serde::{Deserialize, Serialize};

#[derive(Clone, Debug, Serialize, Deserialize)]
pub enum Case {
    Eval {
        dag: DagSpec,
        outs: Option<Vec<u16>>,
        /// finite boxes (lower, upper), 8 entries
        boxes: Vec<(Fl, Fl)>,
        /// sample fractions inside the boxes
        samples: Vec<Vec<u16>>,
    },
    Malformed {
        dag: DagSpec,
        outs: Vec<u16>,
        /// how many variables to drop from the argument list (>= 1)
        drop: u8,
        /// lengths of the slices handed to the bulk evaluators
        lens: Vec<u8>,
    },
}

pub struct P;

fn finite_big() -> BoxedStrategy<Fl> {
    prop_oneof![
        3 => gens::fl_uniform(-4.0, 4.0),
        2 => gens::fl_grid(),
        2 => gens::fl_log(),
        1 => Just(Fl(f32::MAX)),
        1 => Just(Fl(f32::MIN)),
        1 => Just(Fl(1e20)),
        1 => Just(Fl(-1e20)),
        1 => Just(Fl(f32::MIN_POSITIVE)),
        1 => Just(Fl(1e-40)),
        1 => Just(Fl(0.0)),
        1 => Just(Fl(-0.0)),
        1 => Just(Fl(100.0)),
    ]
    .boxed()
}

fn finite_box() -> BoxedStrategy<(Fl, Fl)> {
    let wide = (finite_big(), finite_big(), any::<bool>()).prop_map(|(a, b, degenerate)| {
        let (lo, hi) = if a.0 <= b.0 { (a, b) } else { (b, a) };
        if degenerate { (lo, lo) } else { (lo, hi) }
    });
    // narrow boxes (a few ulps wide) at any magnitude: quadrant and rounding
    // logic at large arguments
    let narrow = (gens::fl_log(), 0u32..=6).prop_map(|(c, k)| {
        let lo = c.0;
        let mut hi = lo;
        for _ in 0..k {
            hi = if hi >= 0.0 {
                f32::from_bits(hi.to_bits() + 1)
            } else {
                f32::from_bits(hi.to_bits() - 1)
            };
        }
        if hi.is_finite() && lo <= hi { (Fl(lo), Fl(hi)) } else { (Fl(lo), Fl(lo)) }
    });
    prop_oneof![3 => wide, 1 => narrow].boxed()
}

fn valid_interval(i: Interval) -> bool {
    (i.lower().is_nan() && i.upper().is_nan()) || i.lower() <= i.upper()
}

fn run_eval<F: MathFunction>(
    what: &str,
    b: &Built,
    roots: &[fidget_core::context::Node],
    boxes: &[(Fl, Fl)],
    samples: &[Vec<u16>],
    cx: &mut Cx,
) -> CheckResult {
    let f = F::new(&b.ctx, roots).unwrap();
    let vm = f.vars();
    let mut order = vec![0usize; vm.len()];
    for (i, v) in b.vars.iter().enumerate() {
        if let Some(s) = vm.get(v) {
            order[s] = i;
        }
    }
    let pts: Vec<Vec<f32>> = samples
        .iter()
        .map(|s| {
            order
                .iter()
                .map(|o| sample_in(boxes[*o].0.0, boxes[*o].1.0, s[*o]))
                .collect()
        })
        .collect();
    for p in &pts {
        ensure!(
            p.iter().all(|v| v.is_finite()),
            "harness",
            "non-finite generated input {p:?}"
        );
    }
    // interval
    {
        let t = f.interval_tape(Default::default());
        let mut e = F::new_interval_eval();
        let iv: Vec<Interval> = order
            .iter()
            .map(|o| Interval::new(boxes[*o].0.0, boxes[*o].1.0))
            .collect();
        let (o, _) = e
            .eval(&t, &iv)
            .map_err(|e| Fail::new(format!("error-on-valid-arguments-{what}"), format!("{e:?}")))?;
        cx.ev.count("interval_evaluations");
        for (k, i) in o.iter().enumerate() {
            if !valid_interval(*i) {
                // F14: the JIT's add / sub build a half-NaN interval from
                // opposite infinities; recognised only at an add / sub node or
                // at a node with an add / sub somewhere below it (the malformed
                // interval is handed on by later operations)
                let has_add_sub_below = {
                    use fidget_core::context::{BinaryOpcode, Op};
                    crate::build::topo(&b.ctx, &[roots[k]]).iter().any(|n| {
                        matches!(
                            b.ctx.get_op(*n).unwrap(),
                            Op::Binary(BinaryOpcode::Add | BinaryOpcode::Sub, ..)
                        )
                    })
                };
                if what == "jit"
                    && (i.lower().is_nan() != i.upper().is_nan())
                    && has_add_sub_below
                    && cx.known("F14-jit-half-nan-interval")
                {
                    continue;
                }
                fail!(
                    if i.lower().is_nan() != i.upper().is_nan() && has_add_sub_below {
                        "F14-jit-half-nan-interval".to_string()
                    } else {
                        format!("malformed-interval-{what}")
                    },
                    "{what} interval evaluation returned [{}, {}] for output {k} ({:?}): neither lower <= upper nor the NaN interval",
                    fl_to_string(i.lower()),
                    fl_to_string(i.upper()),
                    b.ctx.get_op(roots[k]).unwrap()
                );
            }
        }
    }
    // point
    {
        let t = f.point_tape(Default::default());
        let mut e = F::new_point_eval();
        for p in &pts {
            e.eval(&t, p)
                .map_err(|e| Fail::new(format!("error-on-valid-arguments-{what}"), format!("{e:?}")))?;
            cx.ev.count("point_evaluations");
        }
    }
    // float slice / grad slice
    {
        let t = f.float_slice_tape(Default::default());
        let mut e = F::new_float_slice_eval();
        let cols: Vec<Vec<f32>> = (0..order.len())
            .map(|c| pts.iter().map(|p| p[c]).collect())
            .collect();
        e.eval(&t, &cols)
            .map_err(|e| Fail::new(format!("error-on-valid-arguments-{what}"), format!("{e:?}")))?;
        cx.ev.count("float_slice_evaluations");
        let t = f.grad_slice_tape(Default::default());
        let mut e = F::new_grad_slice_eval();
        let gcols: Vec<Vec<Grad>> = cols
            .iter()
            .enumerate()
            .map(|(i, c)| {
                c.iter()
                    .map(|v| Grad::new(*v, (i == 0) as u8 as f32, (i == 1) as u8 as f32, (i == 2) as u8 as f32))
                    .collect()
            })
            .collect();
        e.eval(&t, &gcols)
            .map_err(|e| Fail::new(format!("error-on-valid-arguments-{what}"), format!("{e:?}")))?;
        cx.ev.count("grad_slice_evaluations");
    }
    Ok(())
}

fn run_malformed<F: MathFunction>(
    what: &str,
    b: &Built,
    roots: &[fidget_core::context::Node],
    drop: u8,
    lens: &[u8],
    cx: &mut Cx,
) -> CheckResult {
    let f = F::new(&b.ctx, roots).unwrap();
    let n = f.vars().len();
    if n == 0 {
        return Ok(());
    }
    let k = n - (drop as usize % n + 1).min(n); // fewer than needed
    // too few variables: all four kinds must report an error
    let t = f.point_tape(Default::default());
    let mut e = F::new_point_eval();
    ensure!(
        e.eval(&t, &vec![0.5f32; k]).is_err(),
        format!("too-few-vars-accepted-{what}"),
        "point eval accepted {k} of {n} variables"
    );
    let t = f.interval_tape(Default::default());
    let mut e = F::new_interval_eval();
    ensure!(
        e.eval(&t, &vec![Interval::new(0.0, 1.0); k]).is_err(),
        format!("too-few-vars-accepted-{what}"),
        "interval eval accepted {k} of {n} variables"
    );
    let t = f.float_slice_tape(Default::default());
    let mut e = F::new_float_slice_eval();
    ensure!(
        e.eval(&t, &vec![vec![0.5f32; 3]; k]).is_err(),
        format!("too-few-vars-accepted-{what}"),
        "float slice eval accepted {k} of {n} variables"
    );
    let tg = f.grad_slice_tape(Default::default());
    let mut eg = F::new_grad_slice_eval();
    ensure!(
        eg.eval(&tg, &vec![vec![Grad::from(0.5); 3]; k]).is_err(),
        format!("too-few-vars-accepted-{what}"),
        "grad slice eval accepted {k} of {n} variables"
    );
    cx.ev.count("too_few_variables_cases");
    // mismatched slice lengths
    if n >= 2 {
        let cols: Vec<Vec<f32>> = (0..n)
            .map(|i| vec![0.25; lens[i % lens.len()] as usize % 20])
            .collect();
        let all_equal = cols.iter().all(|c| c.len() == cols[0].len());
        let r = e.eval(&t, &cols);
        if all_equal {
            ensure!(r.is_ok(), format!("error-on-valid-arguments-{what}"), "equal lengths rejected");
        } else {
            ensure!(
                r.is_err(),
                format!("mismatched-slices-accepted-{what}"),
                "float slice eval accepted slice lengths {:?}",
                cols.iter().map(|c| c.len()).collect::<Vec<_>>()
            );
            cx.ev.count("mismatched_slice_cases");
        }
        let gcols: Vec<Vec<Grad>> = cols
            .iter()
            .map(|c| c.iter().map(|v| Grad::from(*v)).collect())
            .collect();
        let r = eg.eval(&tg, &gcols);
        ensure!(
            r.is_ok() == all_equal,
            format!("mismatched-slices-accepted-{what}"),
            "grad slice eval: ok={} for lengths {:?}",
            r.is_ok(),
            cols.iter().map(|c| c.len()).collect::<Vec<_>>()
        );
    }
    // more slices than variables is allowed (tapes lose variables when they
    // are simplified), but "any of the slices of different lengths" is still
    // an error, also when the odd one is an extra; short lengths matter: the
    // JIT copies every caller slice to scratch when n is below the SIMD width
    {
        // (any number of extras: a solver hands every equation one slot per
        // parameter of the whole system)
        let extra = [1usize, 2, 3, 4, 5, 8, 17, 39][lens[0] as usize % 8];
        let base = lens[1 % lens.len()] as usize % 20;
        let mut cols: Vec<Vec<f32>> = vec![vec![0.25; base]; n + extra];
        let odd = if lens[2 % lens.len()] % 2 == 0 { base } else { lens[2 % lens.len()] as usize % 20 };
        let which = n + lens[3 % lens.len()] as usize % extra;
        cols[which] = vec![0.25; odd];
        let all_equal = odd == base;
        let r = e.eval(&t, &cols);
        ensure!(
            r.is_ok() == all_equal,
            format!("mismatched-extra-slice-{what}"),
            "float slice eval: ok={} for {n} variables + {extra} extra slices, lengths {base} / extra #{which}: {odd}",
            r.is_ok()
        );
        let gcols: Vec<Vec<Grad>> = cols
            .iter()
            .map(|c| c.iter().map(|v| Grad::from(*v)).collect())
            .collect();
        let r = eg.eval(&tg, &gcols);
        ensure!(
            r.is_ok() == all_equal,
            format!("mismatched-extra-slice-{what}"),
            "grad slice eval: ok={} for {n} variables + {extra} extra slices, lengths {base} / extra #{which}: {odd}",
            r.is_ok()
        );
        cx.ev.count(if all_equal { "extra_slices_equal_cases" } else { "extra_slice_mismatched_cases" });
        // the tracing evaluators accept extra values too
        let tp = f.point_tape(Default::default());
        let mut ep = F::new_point_eval();
        let r = ep.eval(&tp, &vec![0.25f32; n + extra]).map(|_| ());
        ensure!(
            r.is_ok(),
            format!("extra-values-rejected-{what}"),
            "point eval rejected {n} variables + {extra} extra values: {r:?}"
        );
        let ti = f.interval_tape(Default::default());
        let mut ei = F::new_interval_eval();
        let r = ei.eval(&ti, &vec![Interval::from(0.25f32); n + extra]).map(|_| ());
        ensure!(
            r.is_ok(),
            format!("extra-values-rejected-{what}"),
            "interval eval rejected {n} variables + {extra} extra values: {r:?}"
        );
    }
    // missing bound variable through the Shape API
    if roots.len() == 1 {
        let free: Vec<_> = b
            .vars
            .iter()
            .skip(3)
            .filter(|v| f.vars().get(v).is_some())
            .collect();
        if !free.is_empty() {
            let shape = Shape::<F>::new(&b.ctx, roots[0]).unwrap();
            let vars: ShapeVars<f32> = ShapeVars::new();
            let tape = shape.ez_point_tape();
            let mut e = Shape::<F>::new_point_eval();
            ensure!(
                e.eval_with_vars(&tape, 0.0, 0.0, 0.0, &vars).is_err(),
                format!("missing-var-accepted-{what}"),
                "shape point eval without the free variables returned Ok"
            );
            let tape = shape.ez_float_slice_tape();
            let mut e = Shape::<F>::new_float_slice_eval();
            ensure!(
                e.eval_with_vars(&tape, &[0.0], &[0.0], &[0.0], &vars).is_err(),
                format!("missing-var-accepted-{what}"),
                "shape bulk eval without the free variables returned Ok"
            );
            ensure!(
                e.eval(&tape, &[0.0, 1.0], &[0.0], &[0.0, 1.0]).is_err(),
                format!("mismatched-slices-accepted-{what}"),
                "shape bulk eval accepted x, y, z of different lengths"
            );
            ensure!(
                shape.bind(&vars).is_err(),
                format!("missing-var-accepted-{what}"),
                "Shape::bind without the free variables returned Ok"
            );
            cx.ev.count("missing_bound_variable_cases");
            // valid arguments stay valid whatever the evaluator object was
            // used for before: the same Shape-level bulk evaluators on this
            // shape with every variable bound (batch of 3), then on a shape
            // with fewer variables and another batch size
            let mut full: ShapeVars<f32> = ShapeVars::new();
            for v in &free {
                full.insert(v.index().unwrap(), 0.5);
            }
            let small = {
                let mut c2 = fidget_core::Context::new();
                let x = c2.x();
                Shape::<F>::new(&c2, x).unwrap()
            };
            let stape = small.ez_float_slice_tape();
            let r1 = e.eval_with_vars(&tape, &[0.1, 0.2, 0.3], &[0.0; 3], &[0.0; 3], &full).map(|o| o.len());
            let r2 = e.eval(&stape, &[0.1; 5], &[0.0; 5], &[0.0; 5]).map(|o| o.len());
            ensure!(
                matches!(r1, Ok(3)) && matches!(r2, Ok(5)),
                format!("error-on-valid-arguments-{what}"),
                "Shape bulk evaluator reused on a shape with fewer variables: {r1:?} then {r2:?}"
            );
            let mut eg = Shape::<F>::new_grad_slice_eval();
            let gtape = shape.ez_grad_slice_tape();
            let sgtape = small.ez_grad_slice_tape();
            let g = |n: usize| vec![Grad::from(0.25); n];
            let r1 = eg.eval_with_vars(&gtape, &g(4), &g(4), &g(4), &full).map(|o| o.len());
            let r2 = eg.eval(&sgtape, &g(2), &g(2), &g(2)).map(|o| o.len());
            ensure!(
                matches!(r1, Ok(4)) && matches!(r2, Ok(2)),
                format!("error-on-valid-arguments-{what}"),
                "Shape grad evaluator reused on a shape with fewer variables: {r1:?} then {r2:?}"
            );
            cx.ev.count("shape_evaluator_reuse_on_fewer_variables_cases");
        }
    }
    Ok(())
}

impl Prop for P {
    const ID: &'static str = "C11";
    type Case = Case;

    fn strategy(tier: Tier) -> BoxedStrategy<Case> {
        let max = tier.pick(40, 120);
        let mut p = gens::DagParams::all(max);
        p.max_vars = 5;
        // biased towards overflow and invalid operations
        for (w, o) in p.un.iter_mut() {
            if matches!(o, UnOp::Exp | UnOp::Square | UnOp::Recip | UnOp::Ln | UnOp::Sqrt | UnOp::Tan) {
                *w = 3;
            }
        }
        for (w, o) in p.bin.iter_mut() {
            if matches!(o, BinOp::Mul | BinOp::Div | BinOp::Sub | BinOp::Mod | BinOp::Atan2) {
                *w = 4;
            }
        }
        p.consts = prop_oneof![8 => finite_big(), 1 => gens::fl_special()].boxed();
        let eval = (
            gens::dag(p.clone()),
            prop_oneof![2 => Just(None), 1 => vec(any::<u16>(), 1..=4).prop_map(Some)],
            vec(finite_box(), 8..=8),
            vec(vec(prop_oneof![Just(0u16), Just(1000u16), 0u16..=1000], 8..=8), 1..=9),
        )
            .prop_map(|(dag, outs, boxes, samples)| {
                let boxes = gens::coincide_boxes(&dag, boxes, f32::MAX);
                Case::Eval { dag, outs, boxes, samples }
            });
        let mut pm = p;
        pm.min_vars = 2;
        pm.max_nodes = 20;
        let mal = (
            gens::dag(pm),
            vec(any::<u16>(), 1..=2),
            any::<u8>(),
            vec(any::<u8>(), 1..=4),
        )
            .prop_map(|(dag, outs, drop, lens)| Case::Malformed {
                dag,
                outs,
                drop,
                lens,
            });
        prop_oneof![6 => eval, 1 => mal].boxed()
    }

    /// Every opcode, in every operand position, fed each kind of interval that
    /// overflow produces from a FINITE box: x in [1e30, 2e30], y in [-1e30,
    /// 1e30] gives x*x = [inf, inf], y*y = [0, inf], x*x - y*y = [NaN, inf]
    /// and y*y - x*x = [-inf, NaN] in the JIT (half-NaN, finding F14; the NaN
    /// interval in the interpreter), -(x*x) = [-inf, -inf], y*y*y = [-inf, inf],
    /// x*x - x*x = NaN.  The native code calls back into Rust for most unary
    /// functions; an interval constructor that panics there aborts the process.
    fn fixed_cases(_tier: Tier) -> Vec<Case> {
        let mut cases = vec![];
        let boxes: Vec<(Fl, Fl)> = vec![
            (Fl(1e30), Fl(2e30)),
            (Fl(-1e30), Fl(1e30)),
            (Fl(0.25), Fl(0.5)),
            (Fl(0.0), Fl(0.0)),
            (Fl(0.0), Fl(0.0)),
            (Fl(0.0), Fl(0.0)),
            (Fl(0.0), Fl(0.0)),
            (Fl(0.0), Fl(0.0)),
        ];
        let samples = vec![vec![0u16; 8], vec![1000u16; 8], vec![500u16; 8]];
        // pool index -> selector, for a node that will sit at pool position `len`
        struct B {
            nodes: Vec<NodeSpec>,
        }
        impl B {
            fn len(&self) -> usize {
                3 + self.nodes.len()
            }
            fn un(&mut self, o: UnOp, a: usize) -> usize {
                let l = self.len();
                self.nodes.push(NodeSpec::U(o, sel_for(a, l)));
                l
            }
            fn bin(&mut self, o: BinOp, a: usize, b: usize) -> usize {
                let l = self.len();
                self.nodes.push(NodeSpec::B(o, sel_for(a, l), sel_for(b, l)));
                l
            }
        }
        let prelude = |b: &mut B| -> Vec<usize> {
            let xx = b.un(UnOp::Square, 0); // [inf, inf]
            let yy = b.un(UnOp::Square, 1); // [0, inf]
            let hn1 = b.bin(BinOp::Sub, xx, yy); // [NaN, inf] (JIT)
            let hn2 = b.bin(BinOp::Sub, yy, xx); // [-inf, NaN] (JIT)
            let ninf = b.un(UnOp::Neg, xx); // [-inf, -inf]
            let yyy = b.bin(BinOp::Mul, yy, 1); // [-inf, inf]
            let nan = b.bin(BinOp::Sub, xx, xx); // NaN
            vec![xx, yy, hn1, hn2, ninf, yyy, nan]
        };
        // unary opcodes
        {
            let mut b = B { nodes: vec![] };
            let sp = prelude(&mut b);
            for o in ALL_UN {
                for s in &sp {
                    b.un(o, *s);
                }
            }
            cases.push(Case::Eval {
                dag: DagSpec { nvars: 3, nodes: b.nodes },
                outs: None,
                boxes: boxes.clone(),
                samples: samples.clone(),
            });
        }
        // binary opcodes: special x ordinary, ordinary x special, special x special
        for o in ALL_BIN {
            let mut b = B { nodes: vec![] };
            let sp = prelude(&mut b);
            for s in &sp {
                b.bin(o, *s, 2);
                b.bin(o, 2, *s);
                b.bin(o, *s, 1);
                b.bin(o, 1, *s);
                for t in &sp {
                    b.bin(o, *s, *t);
                }
            }
            cases.push(Case::Eval {
                dag: DagSpec { nvars: 3, nodes: b.nodes },
                outs: None,
                boxes: boxes.clone(),
                samples: samples.clone(),
            });
        }
        cases
    }

    fn check(case: &Case, cx: &mut Cx) -> CheckResult {
        match case {
            Case::Eval {
                dag,
                outs,
                boxes,
                samples,
            } => {
                let b = build_dag(dag);
                let roots = crate::p01::roots_of(&b, outs);
                // classify: does some intermediate overflow / go invalid?
                let mut special = false;
                for s in samples {
                    let p: Vec<Fl> = (0..8)
                        .map(|i| Fl(sample_in(boxes[i].0.0, boxes[i].1.0, s[i])))
                        .collect();
                    let vals = eval_all(&b.ctx, &roots, &point_map(&b.vars, &p));
                    if vals.values().any(|v| !v.is_finite()) {
                        special = true;
                    }
                }
                run_eval::<VmFunction>("vm", &b, &roots, boxes, samples, cx)?;
                run_eval::<JitFunction>("jit", &b, &roots, boxes, samples, cx)?;
                // "no out-of-bounds access": once more with every heap array
                // the evaluators own (outputs, choices, pointer tables,
                // scratch lanes) bounded by PROT_NONE pages (galloc.rs); an
                // access outside them kills the worker (crash:signal 11)
                if samples.len() % 3 != 1 {
                    crate::galloc::with_guard(samples.len() % 3 == 0, || {
                        run_eval::<JitFunction>("jit", &b, &roots, boxes, samples, cx)
                    })?;
                    cx.ev.count("cases_repeated_with_guard_page_evaluator_arrays");
                }
                if special {
                    cx.ev.count("cases_with_infinite_or_nan_intermediate");
                    cx.ev.nontrivial(case);
                }
                Ok(())
            }
            Case::Malformed {
                dag,
                outs,
                drop,
                lens,
            } => {
                let b = build_dag(dag);
                let roots = crate::p01::roots_of(&b, &Some(outs.clone()));
                run_malformed::<VmFunction>("vm", &b, &roots, *drop, lens, cx)?;
                run_malformed::<JitFunction>("jit", &b, &roots, *drop, lens, cx)?;
                cx.ev.nontrivial(case);
                Ok(())
            }
        }
    }

    fn reduce(case: &Case) -> Vec<Case> {
        let mut out = vec![];
        if let Case::Eval {
            dag,
            outs,
            boxes,
            samples,
        } = case
        {
            let nv = dag.nvars as usize;
            for k in (0..dag.nodes.len()).rev().take(30) {
                let (d2, nr) = dag.prune(&[nv + k]);
                if d2.nodes.len() < dag.nodes.len() && !d2.nodes.is_empty() {
                    out.push(Case::Eval {
                        outs: Some(vec![sel_for(nr[0], nv + d2.nodes.len())]),
                        dag: d2,
                        boxes: boxes.clone(),
                        samples: samples.clone(),
                    });
                }
            }
            let _ = outs;
        }
        out
    }

    fn plan(tier: Tier) -> Plan {
        match tier {
            Tier::Quick => Plan {
                workers: 16,
                cases_per_worker: 15000,
                timeout_s: 1800,
                max_shrink_iters: 2000,
            },
            Tier::Thorough => Plan {
                workers: 16,
                cases_per_worker: 600000,
                timeout_s: 14400,
                max_shrink_iters: 2000,
            },
        }
    }

    fn rule() -> &'static str {
        "generated DAGs biased towards overflow and invalid operations (exp, square, recip, ln, sqrt, tan, mul, div, sub, \
         mod, atan2 boosted; finite constants up to f32::MAX, denormals, occasionally inf/NaN constants) x finite boxes \
         with bounds up to +-f32::MAX x 1-9 finite points of the box (corners included) x all four evaluator kinds x \
         interpreter and JIT, each run inside a child process under catch_unwind (panic = failure, abort / segfault = worker \
         death reported with the breadcrumb input). Every returned interval must be lower <= upper or the NaN interval. \
         Malformed cases: fewer variables than the function has, slices of unequal length (among the used ones, or an \
         extra slice beyond the function's variables), free variables missing from \
         ShapeVars - all must be reported as Err. Non-trivial = some intermediate value is infinite or NaN at a sampled \
         point, or the argument list is malformed."
    }

    fn assumptions() -> Vec<&'static str> {
        vec!["results are not judged here (C01-C05 do that), only totality, error reporting and interval well-formedness"]
    }
}
