//! Turning specs into live fidget objects
use crate::spec::*;
use fidget_core::context::{BinaryOpcode, Context, Node, Op, UnaryOpcode};
use fidget_core::var::{Var, VarIndex};
use serde::Deserialize;
use std::collections::HashMap;

/// Deterministic construction of `Var::V(i)` (VarIndex has no public
/// constructor, but a transparent `Deserialize`)
pub fn var_v(i: u64) -> Var {
    let d = serde::de::value::U64Deserializer::<serde::de::value::Error>::new(i);
    Var::V(VarIndex::deserialize(d).unwrap())
}

/// Variable number `i` of a spec: X, Y, Z, then free variables
pub fn spec_var(i: usize) -> Var {
    match i {
        0 => Var::X,
        1 => Var::Y,
        2 => Var::Z,
        n => var_v(1000 + n as u64),
    }
}

pub fn ctx_unary(ctx: &mut Context, op: UnOp, a: Node) -> Node {
    match op {
        UnOp::Neg => ctx.neg(a),
        UnOp::Abs => ctx.abs(a),
        UnOp::Recip => ctx.recip(a),
        UnOp::Sqrt => ctx.sqrt(a),
        UnOp::Square => ctx.square(a),
        UnOp::Floor => ctx.floor(a),
        UnOp::Ceil => ctx.ceil(a),
        UnOp::Round => ctx.round(a),
        UnOp::Sin => ctx.sin(a),
        UnOp::Cos => ctx.cos(a),
        UnOp::Tan => ctx.tan(a),
        UnOp::Asin => ctx.asin(a),
        UnOp::Acos => ctx.acos(a),
        UnOp::Atan => ctx.atan(a),
        UnOp::Exp => ctx.exp(a),
        UnOp::Ln => ctx.ln(a),
        UnOp::Not => ctx.not(a),
        UnOp::Rand => ctx.rand(a),
    }
    .unwrap()
}

pub fn ctx_binary(ctx: &mut Context, op: BinOp, a: Node, b: Node) -> Node {
    match op {
        BinOp::Add => ctx.add(a, b),
        BinOp::Sub => ctx.sub(a, b),
        BinOp::Mul => ctx.mul(a, b),
        BinOp::Div => ctx.div(a, b),
        BinOp::Atan2 => ctx.atan2(a, b),
        BinOp::Min => ctx.min(a, b),
        BinOp::Max => ctx.max(a, b),
        BinOp::Compare => ctx.compare(a, b),
        BinOp::Mod => ctx.modulo(a, b),
        BinOp::And => ctx.and(a, b),
        BinOp::Or => ctx.or(a, b),
        BinOp::Mix => ctx.mix(a, b),
    }
    .unwrap()
}

pub fn un_of(op: UnaryOpcode) -> UnOp {
    match op {
        UnaryOpcode::Neg => UnOp::Neg,
        UnaryOpcode::Abs => UnOp::Abs,
        UnaryOpcode::Recip => UnOp::Recip,
        UnaryOpcode::Sqrt => UnOp::Sqrt,
        UnaryOpcode::Square => UnOp::Square,
        UnaryOpcode::Floor => UnOp::Floor,
        UnaryOpcode::Ceil => UnOp::Ceil,
        UnaryOpcode::Round => UnOp::Round,
        UnaryOpcode::Sin => UnOp::Sin,
        UnaryOpcode::Cos => UnOp::Cos,
        UnaryOpcode::Tan => UnOp::Tan,
        UnaryOpcode::Asin => UnOp::Asin,
        UnaryOpcode::Acos => UnOp::Acos,
        UnaryOpcode::Atan => UnOp::Atan,
        UnaryOpcode::Exp => UnOp::Exp,
        UnaryOpcode::Ln => UnOp::Ln,
        UnaryOpcode::Not => UnOp::Not,
        UnaryOpcode::Rand => UnOp::Rand,
    }
}

pub fn bin_of(op: BinaryOpcode) -> BinOp {
    match op {
        BinaryOpcode::Add => BinOp::Add,
        BinaryOpcode::Sub => BinOp::Sub,
        BinaryOpcode::Mul => BinOp::Mul,
        BinaryOpcode::Div => BinOp::Div,
        BinaryOpcode::Atan => BinOp::Atan2,
        BinaryOpcode::Min => BinOp::Min,
        BinaryOpcode::Max => BinOp::Max,
        BinaryOpcode::Compare => BinOp::Compare,
        BinaryOpcode::Mod => BinOp::Mod,
        BinaryOpcode::And => BinOp::And,
        BinaryOpcode::Or => BinOp::Or,
        BinaryOpcode::Mix => BinOp::Mix,
    }
}

/// A DAG built into a context
pub struct Built {
    pub ctx: Context,
    /// The variables of the spec (index = spec variable number)
    pub vars: Vec<Var>,
    /// The input node of each variable
    pub var_nodes: Vec<Node>,
    /// One context node per spec node (after the constructors' rewrites)
    pub nodes: Vec<Node>,
    /// Distinct non-input nodes, in first-creation order ("all nodes")
    pub distinct: Vec<Node>,
}

pub fn build_dag(spec: &DagSpec) -> Built {
    let mut ctx = Context::new();
    let vars: Vec<Var> = (0..spec.nvars as usize).map(spec_var).collect();
    let mut pool: Vec<Node> = vars.iter().map(|v| ctx.var(*v)).collect();
    let var_nodes = pool.clone();
    let mut nodes = vec![];
    for n in &spec.nodes {
        let node = if pool.is_empty() {
            match n {
                NodeSpec::C(f) => ctx.constant(f.0),
                _ => ctx.constant(0.5),
            }
        } else {
            match *n {
                NodeSpec::C(f) => ctx.constant(f.0),
                NodeSpec::U(op, a) => {
                    let a = pool[sel_index(a, pool.len())];
                    ctx_unary(&mut ctx, op, a)
                }
                NodeSpec::B(op, a, b) => {
                    let a = pool[sel_index(a, pool.len())];
                    let b = pool[sel_index(b, pool.len())];
                    ctx_binary(&mut ctx, op, a, b)
                }
            }
        };
        pool.push(node);
        nodes.push(node);
    }
    let mut seen = std::collections::HashSet::new();
    let mut distinct = vec![];
    for n in &nodes {
        if seen.insert(*n) && !matches!(ctx.get_op(*n), Some(Op::Input(..))) {
            distinct.push(*n);
        }
    }
    Built {
        ctx,
        vars,
        var_nodes,
        nodes,
        distinct,
    }
}

/// Values of all nodes reachable from `roots`, computed with the context's own
/// per-opcode `eval` (this is what `Context::eval` does, for every node at
/// once)
pub fn eval_all(
    ctx: &Context,
    roots: &[Node],
    vars: &HashMap<Var, f32>,
) -> HashMap<Node, f32> {
    let mut memo: HashMap<Node, f32> = HashMap::new();
    let mut stack: Vec<(Node, bool)> = roots.iter().map(|n| (*n, false)).collect();
    while let Some((n, ready)) = stack.pop() {
        if memo.contains_key(&n) {
            continue;
        }
        let op = *ctx.get_op(n).unwrap();
        if !ready {
            stack.push((n, true));
            for c in op.iter_children() {
                if !memo.contains_key(&c) {
                    stack.push((c, false));
                }
            }
        } else {
            let v = match op {
                Op::Input(v) => vars[&v],
                Op::Const(c) => c.0,
                Op::Unary(o, a) => o.eval(memo[&a]),
                Op::Binary(o, a, b) => o.eval(memo[&a], memo[&b]),
            };
            memo.insert(n, v);
        }
    }
    memo
}

/// Nodes reachable from the roots in topological (children first) order
pub fn topo(ctx: &Context, roots: &[Node]) -> Vec<Node> {
    let mut seen = std::collections::HashSet::new();
    let mut out = vec![];
    let mut stack: Vec<(Node, bool)> = roots.iter().rev().map(|n| (*n, false)).collect();
    while let Some((n, ready)) = stack.pop() {
        if ready {
            out.push(n);
            continue;
        }
        if !seen.insert(n) {
            continue;
        }
        stack.push((n, true));
        let op = *ctx.get_op(n).unwrap();
        let ch: Vec<Node> = op.iter_children().collect();
        for c in ch.into_iter().rev() {
            if !seen.contains(&c) {
                stack.push((c, false));
            }
        }
    }
    out
}

pub fn point_map(vars: &[Var], p: &[Fl]) -> HashMap<Var, f32> {
    vars.iter()
        .enumerate()
        .map(|(i, v)| (*v, p.get(i).map(|f| f.0).unwrap_or(0.0)))
        .collect()
}

/// A context graph flattened for fast repeated evaluation with the context's
/// own per-opcode `eval` (i.e. `Context::eval` semantics for every node)
pub struct Flat {
    pub nodes: Vec<Node>,
    pub index: HashMap<Node, usize>,
    ops: Vec<FlatOp>,
}

#[derive(Copy, Clone)]
enum FlatOp {
    Input(Var),
    Const(f32),
    Un(UnaryOpcode, usize),
    Bin(BinaryOpcode, usize, usize),
}

impl Flat {
    pub fn new(ctx: &Context, roots: &[Node]) -> Flat {
        let nodes = topo(ctx, roots);
        let index: HashMap<Node, usize> =
            nodes.iter().enumerate().map(|(i, n)| (*n, i)).collect();
        let ops = nodes
            .iter()
            .map(|n| match *ctx.get_op(*n).unwrap() {
                Op::Input(v) => FlatOp::Input(v),
                Op::Const(c) => FlatOp::Const(c.0),
                Op::Unary(o, a) => FlatOp::Un(o, index[&a]),
                Op::Binary(o, a, b) => FlatOp::Bin(o, index[&a], index[&b]),
            })
            .collect();
        Flat { nodes, index, ops }
    }

    /// Evaluates every node; `var` supplies input values
    pub fn eval_into(&self, var: &dyn Fn(Var) -> f32, out: &mut Vec<f32>) {
        out.clear();
        for op in &self.ops {
            let v = match *op {
                FlatOp::Input(v) => var(v),
                FlatOp::Const(c) => c,
                FlatOp::Un(o, a) => o.eval(out[a]),
                FlatOp::Bin(o, a, b) => o.eval(out[a], out[b]),
            };
            out.push(v);
        }
    }

    pub fn eval_xyz(&self, x: f32, y: f32, z: f32, out: &mut Vec<f32>) {
        self.eval_into(
            &|v| match v {
                Var::X => x,
                Var::Y => y,
                Var::Z => z,
                _ => 0.0,
            },
            out,
        )
    }

    /// Reference taint (see p02::ref_taint) for flat values
    pub fn taint(&self, vals: &[f32]) -> Vec<bool> {
        let mut t = vec![false; self.ops.len()];
        for (i, op) in self.ops.iter().enumerate() {
            t[i] = match *op {
                FlatOp::Input(..) | FlatOp::Const(..) => false,
                FlatOp::Un(o, a) => {
                    t[a] || (o == UnaryOpcode::Rand && vals[a].is_nan())
                }
                FlatOp::Bin(o, a, b) => {
                    t[a] || t[b]
                        || (matches!(o, BinaryOpcode::Min | BinaryOpcode::Max)
                            && vals[a] == 0.0
                            && vals[b] == 0.0
                            && vals[a].to_bits() != vals[b].to_bits())
                        || (o == BinaryOpcode::Mix
                            && (vals[a].is_nan() || vals[b].is_nan()))
                }
            };
        }
        t
    }

    /// NaN produced from non-NaN operands one of which is infinite
    pub fn nan_from_inf(&self, vals: &[f32]) -> bool {
        self.ops.iter().enumerate().any(|(i, op)| match *op {
            FlatOp::Un(_, a) => vals[i].is_nan() && vals[a].is_infinite(),
            FlatOp::Bin(_, a, b) => {
                vals[i].is_nan()
                    && !vals[a].is_nan()
                    && !vals[b].is_nan()
                    && (vals[a].is_infinite() || vals[b].is_infinite())
            }
            _ => false,
        })
    }
}
