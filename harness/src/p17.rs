//! C17 — scripts build the same expressions as the Rust API
use crate::engine::*;
use crate::p12::{tree_binary, tree_unary};
use crate::spec::*;
use crate::{ensure, fail};
use fidget_core::context::Tree;
use fidget_shapes::types::{Axis, Plane, Vec2, Vec3};
use fidget_shapes as fs;
use proptest::collection::vec;
use proptest::prelude::*;
use serde::{Deserialize, Serialize};
use std::collections::HashMap;

/// How a vector literal is written
#[derive(Clone, Copy, Debug, Serialize, Deserialize, PartialEq)]
pub enum VForm {
    Ctor,
    Array,
}

#[derive(Clone, Debug, Serialize, Deserialize)]
pub enum Sh {
    /// form 0: map (defaults omitted by flags), 1: positional in `order`
    Circle { c: Option<[i16; 2]>, r: Option<i16>, positional: bool, swap: bool, vf: VForm },
    Sphere { c: Option<[i16; 3]>, r: Option<i16>, positional: bool, swap: bool, vf: VForm, promote: bool },
    Rectangle { lo: [i16; 2], hi: [i16; 2], map: bool, vf: VForm },
    Box3 { lo: [i16; 3], hi: [i16; 3], map: bool, vf: VForm },
    /// form: 0 map, 1 tree + map, 2 chained method + map, 3 positional (tree, vec), 4 positional (vec, tree),
    /// 5 positional with vec2 promotion, 6 / 7 / 8 = forms 0 / 1 / 2 with vec2 promotion
    Move { t: Box<E>, o: [i16; 3], form: u8, vf: VForm },
    Scale { t: Box<E>, s: [i16; 3], form: u8, vf: VForm },
    ScaleUniform { t: Box<E>, s: i16, form: u8 },
    /// which: 0 reflect_x, 1 reflect_xy, 2 reflect_y, 3 reflect_z
    ReflectX { t: Box<E>, o: i16, form: u8, #[serde(default)] which: u8 },
    /// order: permutation index of (tree, angle, center) for the positional form;
    /// which: 0 rotate_z, 1 rotate_x, 2 rotate_y
    RotateZ { t: Box<E>, angle: Option<i16>, center: Option<[i16; 3]>, form: u8, order: u8, vf: VForm, #[serde(default)] which: u8 },
    /// rotate about a general axis; `axis` None = omitted (default Z)
    Rotate { t: Box<E>, axis: Option<AxisSpec>, angle: Option<i16>, center: Option<[i16; 3]>, form: u8, order: u8, vf: VForm },
    /// reflect about a plane; `plane` None = omitted (default YZ);
    /// form: 0 map, 1 tree + map, 2 chained + map, 3 positional (tree, plane), 4 positional (plane, tree)
    Reflect { t: Box<E>, plane: Option<PlaneSpec>, form: u8 },
    RevolveY { t: Box<E>, o: i16, form: u8 },
    ExtrudeZ { t: Box<E>, lo: i16, hi: i16, form: u8 },
    RepeatX { t: Box<E>, r: i16, o: i16, form: u8 },
    LoftZ { a: Box<E>, b: Box<E>, lo: i16, hi: i16, map: bool },
    /// form: 0 variadic, 1 array, 2 map
    Union { v: Vec<E>, form: u8 },
    Intersection { v: Vec<E>, form: u8 },
    Difference { a: Box<E>, b: Box<E>, map: bool },
    Inverse { t: Box<E>, form: u8 },
    Blend { a: Box<E>, b: Box<E>, r: i16, map: bool },
}

/// An axis: a named one (0 x, 1 y, 2 z) or a small integer vector, and the way it is written
#[derive(Clone, Debug, Serialize, Deserialize)]
pub struct AxisSpec {
    /// 0..=2 named axis, 3 general vector `v`
    pub which: u8,
    pub v: [i8; 3],
    /// named: 0 axis("x"), 1 axis('x'), 2 axis([1, 0, 0]) (or [1, 0] for x / y), 3 axis(vec3(..)), 4 axis(x)
    /// general: axis([a, b, c]) or axis(vec3(a, b, c))
    pub form: u8,
}

#[derive(Clone, Debug, Serialize, Deserialize)]
pub struct PlaneSpec {
    /// Some(0 xy, 1 yz, 2 zx): plane("xy") ...; None: plane(<axis>) or plane(<axis>, offset)
    pub named: Option<u8>,
    pub axis: AxisSpec,
    pub offset: Option<i16>,
}

impl AxisSpec {
    fn vec(&self) -> [i8; 3] {
        match self.which % 4 {
            0 => [1, 0, 0],
            1 => [0, 1, 0],
            2 => [0, 0, 1],
            _ => {
                if self.v == [0, 0, 0] {
                    [0, 0, -1]
                } else {
                    self.v
                }
            }
        }
    }
    fn value(&self) -> Axis {
        let v = self.vec();
        match (self.which % 4, self.form % 5) {
            (0, 0 | 1 | 4) => Axis::X,
            (1, 0 | 1 | 4) => Axis::Y,
            (2, 0 | 1 | 4) => Axis::Z,
            _ => Axis::try_from(Vec3::new(v[0] as f32, v[1] as f32, v[2] as f32)).unwrap(),
        }
    }
    /// the argument of `axis(..)` / `plane(..)`
    fn arg(&self) -> String {
        let v = self.vec();
        let n = ["x", "y", "z"];
        let w = (self.which % 4) as usize;
        let int = |k: i8| if k < 0 { format!("({k})") } else { format!("{k}") };
        match (w, self.form % 5) {
            (0..=2, 0) => format!("\"{}\"", n[w]),
            (0..=2, 1) => format!("'{}'", n[w]),
            (0..=2, 4) => n[w].to_string(),
            (0..=1, 2) => format!("[{}, {}]", v[0], v[1]),
            (_, 3) => format!("vec3({}, {}, {})", int(v[0]), int(v[1]), int(v[2])),
            _ => format!("[{}, {}, {}]", int(v[0]), int(v[1]), int(v[2])),
        }
    }
    fn text(&self) -> String {
        format!("axis({})", self.arg())
    }
}

impl PlaneSpec {
    fn value(&self) -> Plane {
        match self.named {
            Some(k) => [Plane::XY, Plane::YZ, Plane::ZX][k as usize % 3],
            None => Plane {
                axis: self.axis.value(),
                offset: self.offset.map(num).unwrap_or(0.0),
            },
        }
    }
    fn text(&self) -> String {
        match (self.named, self.offset) {
            (Some(k), _) => format!("plane(\"{}\")", ["xy", "yz", "zx"][k as usize % 3]),
            (None, None) if self.axis.form % 2 == 0 => format!("plane({})", self.axis.arg()),
            // an axis where a plane is expected: offset 0
            (None, None) => self.axis.text(),
            // the offset parameter is a float
            (None, Some(o)) => format!("plane({}, {:?})", self.axis.arg(), num(o)),
        }
    }
}

#[derive(Clone, Debug, Serialize, Deserialize)]
pub enum E {
    X,
    Y,
    Z,
    /// a number k/8 (written as an integer literal when k is a multiple of 8)
    Num(i16),
    /// a large integer literal (Rhai integers are 64 bit; the constant is its
    /// nearest f32)
    Big(i64),
    /// infix operator or named function; `method`: written a.f(b)
    Bin { op: BinOp, a: Box<E>, b: Box<E>, method: bool },
    Un { op: UnOp, a: Box<E>, method: bool },
    /// an array of trees where a tree is expected (coerces to a union)
    Arr(Vec<E>),
    Shape(Sh),
    /// a named mathematical constant of the scripting engine (NAMES[k]); a
    /// number, unless an earlier `let` of the script bound the same name
    Name(u8),
}

/// Names the engine's resolver answers with a constant when the script has not
/// defined them (fidget-rhai/src/constants.rs, documented there)
pub const NAMES: [(&str, f64); 19] = [
    ("PI", std::f64::consts::PI),
    ("E", std::f64::consts::E),
    ("TAU", std::f64::consts::TAU),
    ("SQRT_2", std::f64::consts::SQRT_2),
    ("LN_2", std::f64::consts::LN_2),
    ("LN_10", std::f64::consts::LN_10),
    ("LOG2_E", std::f64::consts::LOG2_E),
    ("LOG10_E", std::f64::consts::LOG10_E),
    ("FRAC_PI_2", std::f64::consts::FRAC_PI_2),
    ("FRAC_PI_3", std::f64::consts::FRAC_PI_3),
    ("FRAC_PI_4", std::f64::consts::FRAC_PI_4),
    ("FRAC_PI_6", std::f64::consts::FRAC_PI_6),
    ("FRAC_PI_8", std::f64::consts::FRAC_PI_8),
    ("FRAC_1_PI", std::f64::consts::FRAC_1_PI),
    ("FRAC_2_PI", std::f64::consts::FRAC_2_PI),
    ("FRAC_2_SQRT_PI", std::f64::consts::FRAC_2_SQRT_PI),
    ("PHI", 1.618033988749895_f64),
    ("GOLDEN_RATIO", 1.618033988749895_f64),
    ("FRAC_1_SQRT_2", std::f64::consts::FRAC_1_SQRT_2),
];

thread_local! {
    /// names bound by the `let` statements rendered so far (x / y / z and the
    /// NAMES), with the tree each stands for
    static SCOPE: std::cell::RefCell<HashMap<String, Tree>> = std::cell::RefCell::new(HashMap::new());
}

fn scope_get(name: &str) -> Option<Tree> {
    SCOPE.with(|s| s.borrow().get(name).cloned())
}

#[derive(Clone, Debug, Serialize, Deserialize)]
pub enum Case {
    /// `lets`: bindings t0, t1, ... each may refer to earlier ones through
    /// `Ref`; the script's value is the last expression
    /// `names[i]` selects the identifier bound by the i-th `let`: an entry of
    /// NAMES, x / y / z (shadowing the axis), or t<i> for larger values
    Script {
        lets: Vec<E>,
        body: E,
        #[serde(default)]
        names: Vec<u8>,
    },
    /// a comparison on trees must be rejected
    Compare { op: u8, a: E, b: E },
}

pub struct P;

fn num(k: i16) -> f32 {
    k as f32 / 8.0
}

fn lit(k: i16) -> String {
    if k % 8 == 0 {
        let v = k / 8;
        if v < 0 { format!("({v})") } else { format!("{v}") }
    } else {
        let v = num(k);
        if v < 0.0 { format!("({v:?})") } else { format!("{v:?}") }
    }
}

fn vlit(v: &[i16], vf: VForm) -> String {
    let parts: Vec<String> = v.iter().map(|k| lit(*k)).collect();
    match vf {
        VForm::Ctor => format!("vec{}({})", v.len(), parts.join(", ")),
        VForm::Array => format!("[{}]", parts.join(", ")),
    }
}

fn v2(v: &[i16; 2]) -> Vec2 {
    Vec2::new(num(v[0]), num(v[1]))
}
fn v3(v: &[i16; 3]) -> Vec3 {
    Vec3::new(num(v[0]), num(v[1]), num(v[2]))
}

impl E {
    fn is_tree(&self) -> bool {
        !matches!(self, E::Num(_) | E::Big(_) | E::Name(_))
    }
    fn is_plain_tree(&self) -> bool {
        !matches!(self, E::Num(_) | E::Big(_) | E::Arr(_) | E::Name(_))
    }
    fn has_shape(&self) -> bool {
        match self {
            E::Shape(_) => true,
            E::Bin { a, b, .. } => a.has_shape() || b.has_shape(),
            E::Un { a, .. } => a.has_shape(),
            E::Arr(v) => v.iter().any(|e| e.has_shape()),
            _ => false,
        }
    }
    /// (script text, expected tree)
    fn render(&self) -> (String, Tree) {
        match self {
            E::X => ("x".into(), scope_get("x").unwrap_or_else(Tree::x)),
            E::Y => ("y".into(), scope_get("y").unwrap_or_else(Tree::y)),
            E::Z => ("z".into(), scope_get("z").unwrap_or_else(Tree::z)),
            E::Name(k) => {
                let (name, v) = NAMES[*k as usize % NAMES.len()];
                (
                    name.into(),
                    scope_get(name).unwrap_or_else(|| Tree::constant(v as f32)),
                )
            }
            E::Num(k) => (lit(*k), Tree::constant(num(*k))),
            E::Big(v) => (
                if *v < 0 { format!("({v})") } else { format!("{v}") },
                Tree::constant(*v as f32),
            ),
            E::Arr(v) => {
                let parts: Vec<(String, Tree)> = v.iter().map(|e| e.render()).collect();
                (
                    format!("[{}]", parts.iter().map(|p| p.0.clone()).collect::<Vec<_>>().join(", ")),
                    fs::Union {
                        input: parts.into_iter().map(|p| p.1).collect(),
                    }
                    .into(),
                )
            }
            E::Un { op, a, method } => {
                let (sa, ta) = a.render();
                let name = un_name(*op);
                let s = if *op == UnOp::Neg {
                    format!("(-{sa})")
                } else if *method && a.is_plain_tree() {
                    format!("({sa}).{name}()")
                } else {
                    format!("{name}({sa})")
                };
                (s, tree_unary(*op, &ta))
            }
            E::Bin { op, a, b, method } => {
                let (sa, ta) = a.render();
                let (sb, tb) = b.render();
                let s = match op {
                    BinOp::Add => format!("({sa} + {sb})"),
                    BinOp::Sub => format!("({sa} - {sb})"),
                    BinOp::Mul => format!("({sa} * {sb})"),
                    BinOp::Div => format!("({sa} / {sb})"),
                    BinOp::Mod => format!("({sa} % {sb})"),
                    o => {
                        let name = bin_name(*o);
                        if *method && a.is_plain_tree() {
                            format!("({sa}).{name}({sb})")
                        } else {
                            format!("{name}({sa}, {sb})")
                        }
                    }
                };
                (s, tree_binary(*op, &ta, &tb))
            }
            E::Shape(sh) => sh.render(),
        }
    }
}

fn un_name(op: UnOp) -> &'static str {
    match op {
        UnOp::Neg => "-",
        UnOp::Abs => "abs",
        UnOp::Sqrt => "sqrt",
        UnOp::Square => "square",
        UnOp::Floor => "floor",
        UnOp::Ceil => "ceil",
        UnOp::Round => "round",
        UnOp::Sin => "sin",
        UnOp::Cos => "cos",
        UnOp::Tan => "tan",
        UnOp::Asin => "asin",
        UnOp::Acos => "acos",
        UnOp::Atan => "atan",
        UnOp::Exp => "exp",
        UnOp::Ln => "ln",
        UnOp::Not => "not",
        UnOp::Rand => "rand",
        UnOp::Recip => unreachable!(),
    }
}

fn bin_name(op: BinOp) -> &'static str {
    match op {
        BinOp::Min => "min",
        BinOp::Max => "max",
        BinOp::Compare => "compare",
        BinOp::Mix => "mix",
        BinOp::And => "and",
        BinOp::Or => "or",
        BinOp::Atan2 => "atan2",
        _ => unreachable!(),
    }
}

fn map_of(fields: &[(&str, Option<String>)]) -> String {
    let parts: Vec<String> = fields
        .iter()
        .filter_map(|(k, v)| v.as_ref().map(|v| format!("{k}: {v}")))
        .collect();
    format!("#{{ {} }}", parts.join(", "))
}

impl Sh {
    fn render(&self) -> (String, Tree) {
        match self {
            Sh::Circle { c, r, positional, swap, vf } => {
                let tree: Tree = fs::Circle {
                    center: c.map(|c| v2(&c)).unwrap_or(Vec2::new(0.0, 0.0)),
                    radius: r.map(num).unwrap_or(1.0),
                }
                .into();
                let cs = c.map(|c| vlit(&c, *vf));
                let rs = r.map(lit);
                let s = if *positional {
                    let mut args: Vec<String> = [cs, rs].into_iter().flatten().collect();
                    if *swap {
                        args.reverse();
                    }
                    format!("circle({})", args.join(", "))
                } else {
                    format!("circle({})", map_of(&[("center", cs), ("radius", rs)]))
                };
                (s, tree)
            }
            Sh::Sphere { c, r, positional, swap, vf, promote } => {
                let (cs, center) = match c {
                    None => (None, Vec3::new(0.0, 0.0, 0.0)),
                    Some(c) if *promote => (
                        // a vec2 where a vec3 is expected: z comes from the default
                        Some(vlit(&c[..2], *vf)),
                        Vec3::new(num(c[0]), num(c[1]), 0.0),
                    ),
                    Some(c) => (Some(vlit(c, *vf)), v3(c)),
                };
                let tree: Tree = fs::Sphere {
                    center,
                    radius: r.map(num).unwrap_or(1.0),
                }
                .into();
                let rs = r.map(lit);
                let s = if *positional {
                    let mut args: Vec<String> = [cs, rs].into_iter().flatten().collect();
                    if *swap {
                        args.reverse();
                    }
                    format!("sphere({})", args.join(", "))
                } else {
                    format!("sphere({})", map_of(&[("center", cs), ("radius", rs)]))
                };
                (s, tree)
            }
            Sh::Rectangle { lo, hi, map, vf } => {
                let tree: Tree = fs::Rectangle {
                    lower: v2(lo),
                    upper: v2(hi),
                }
                .into();
                let (l, u) = (vlit(lo, *vf), vlit(hi, *vf));
                let s = if *map {
                    format!("rectangle({})", map_of(&[("upper", Some(u)), ("lower", Some(l))]))
                } else {
                    format!("rectangle({l}, {u})")
                };
                (s, tree)
            }
            Sh::Box3 { lo, hi, map, vf } => {
                let tree: Tree = fs::Box {
                    lower: v3(lo),
                    upper: v3(hi),
                }
                .into();
                let (l, u) = (vlit(lo, *vf), vlit(hi, *vf));
                let s = if *map {
                    format!("box({})", map_of(&[("lower", Some(l)), ("upper", Some(u))]))
                } else {
                    format!("box({l}, {u})")
                };
                (s, tree)
            }
            Sh::Move { t, o, form, vf } => {
                let (st, tt) = t.render();
                let promote = *form % 9 >= 5;
                let offset = if promote {
                    Vec3::new(num(o[0]), num(o[1]), 0.0)
                } else {
                    v3(o)
                };
                let os = if promote { vlit(&o[..2], *vf) } else { vlit(o, *vf) };
                let tree: Tree = fs::Move { shape: tt, offset }.into();
                (transform_call("move", &st, t, &[("offset", os)], promoted_form(*form)), tree)
            }
            Sh::Scale { t, s, form, vf } => {
                let (st, tt) = t.render();
                let promote = *form % 9 >= 5;
                let scale = if promote {
                    Vec3::new(num(s[0]), num(s[1]), 1.0)
                } else {
                    v3(s)
                };
                let ss = if promote { vlit(&s[..2], *vf) } else { vlit(s, *vf) };
                let tree: Tree = fs::Scale { shape: tt, scale }.into();
                (transform_call("scale", &st, t, &[("scale", ss)], promoted_form(*form)), tree)
            }
            Sh::ScaleUniform { t, s, form } => {
                let (st, tt) = t.render();
                let tree: Tree = fs::ScaleUniform {
                    shape: tt,
                    scale: num(*s),
                }
                .into();
                (transform_call("scale_uniform", &st, t, &[("scale", lit(*s))], *form % 5), tree)
            }
            Sh::ReflectX { t, o, form, which } => {
                let (st, tt) = t.render();
                let (shape, offset) = (tt, num(*o));
                let (name, tree): (&str, Tree) = match which % 4 {
                    0 => ("reflect_x", fs::ReflectX { shape, offset }.into()),
                    1 => ("reflect_xy", fs::ReflectXY { shape, offset }.into()),
                    2 => ("reflect_y", fs::ReflectY { shape, offset }.into()),
                    _ => ("reflect_z", fs::ReflectZ { shape, offset }.into()),
                };
                (transform_call(name, &st, t, &[("offset", lit(*o))], *form % 5), tree)
            }
            Sh::Reflect { t, plane, form } => {
                let (st, tt) = t.render();
                let tree: Tree = fs::Reflect {
                    shape: tt,
                    plane: plane.as_ref().map(|p| p.value()).unwrap_or(Plane::YZ),
                }
                .into();
                let s = match (plane, form % 5) {
                    (None, 0) => format!("reflect(#{{ shape: {st} }})"),
                    (None, _) => format!("reflect({st})"),
                    (Some(p), f) => transform_call("reflect", &st, t, &[("plane", p.text())], f),
                };
                (s, tree)
            }
            Sh::Rotate { t, axis, angle, center, form, order, vf } => {
                let (st, tt) = t.render();
                let tree: Tree = fs::Rotate {
                    shape: tt,
                    axis: axis.as_ref().map(|a| a.value()).unwrap_or(Axis::Z),
                    angle: angle.map(num).unwrap_or(0.0),
                    center: center.map(|c| v3(&c)).unwrap_or(Vec3::new(0.0, 0.0, 0.0)),
                }
                .into();
                let a = angle.map(lit);
                let c = center.map(|c| vlit(&c, *vf));
                let ax = axis.as_ref().map(|a| a.text());
                let s = match form % 2 {
                    0 => format!(
                        "rotate({})",
                        map_of(&[("center", c), ("shape", Some(st)), ("axis", ax), ("angle", a)])
                    ),
                    _ => {
                        let mut args: Vec<String> = vec![st];
                        args.extend(a);
                        args.extend(c);
                        args.extend(ax);
                        format!("rotate({})", permute(args, *order))
                    }
                };
                (s, tree)
            }
            Sh::RevolveY { t, o, form } => {
                let (st, tt) = t.render();
                let tree: Tree = fs::RevolveY {
                    shape: tt,
                    offset: num(*o),
                }
                .into();
                (transform_call("revolve_y", &st, t, &[("offset", lit(*o))], *form % 5), tree)
            }
            Sh::RotateZ { t, angle, center, form, order, vf, which } => {
                let (st, tt) = t.render();
                let (shape, ang) = (tt, angle.map(num).unwrap_or(0.0));
                let cen = center.map(|c| v3(&c)).unwrap_or(Vec3::new(0.0, 0.0, 0.0));
                let (name, tree): (&str, Tree) = match which % 3 {
                    0 => ("rotate_z", fs::RotateZ { shape, angle: ang, center: cen }.into()),
                    1 => ("rotate_x", fs::RotateX { shape, angle: ang, center: cen }.into()),
                    _ => ("rotate_y", fs::RotateY { shape, angle: ang, center: cen }.into()),
                };
                let a = angle.map(lit);
                let c = center.map(|c| vlit(&c, *vf));
                let s = match form % 2 {
                    0 => format!(
                        "{name}({})",
                        map_of(&[("shape", Some(st)), ("angle", a), ("center", c)])
                    ),
                    _ => {
                        // unique-typed positional arguments in any order
                        let mut args: Vec<String> = vec![st];
                        args.extend(a);
                        args.extend(c);
                        format!("{name}({})", permute(args, *order))
                    }
                };
                (s, tree)
            }
            Sh::ExtrudeZ { t, lo, hi, form } => {
                let (st, tt) = t.render();
                let tree: Tree = fs::ExtrudeZ {
                    shape: tt,
                    lower: num(*lo),
                    upper: num(*hi),
                }
                .into();
                let s = match form % 3 {
                    0 => format!(
                        "extrude_z({})",
                        map_of(&[("upper", Some(lit(*hi))), ("shape", Some(st)), ("lower", Some(lit(*lo)))])
                    ),
                    1 => format!("extrude_z({st}, {}, {})", lit(*lo), lit(*hi)),
                    _ => format!(
                        "extrude_z({st}, {})",
                        map_of(&[("lower", Some(lit(*lo))), ("upper", Some(lit(*hi)))])
                    ),
                };
                (s, tree)
            }
            Sh::RepeatX { t, r, o, form } => {
                let (st, tt) = t.render();
                let tree: Tree = fs::RepeatX {
                    shape: tt,
                    radius: num(*r),
                    offset: num(*o),
                }
                .into();
                let s = match form % 3 {
                    0 => format!(
                        "repeat_x({})",
                        map_of(&[("shape", Some(st)), ("radius", Some(lit(*r))), ("offset", Some(lit(*o)))])
                    ),
                    1 => format!("repeat_x({st}, {}, {})", lit(*r), lit(*o)),
                    _ => format!(
                        "repeat_x({st}, {})",
                        map_of(&[("offset", Some(lit(*o))), ("radius", Some(lit(*r)))])
                    ),
                };
                (s, tree)
            }
            Sh::LoftZ { a, b, lo, hi, map } => {
                let (sa, ta) = a.render();
                let (sb, tb) = b.render();
                let tree: Tree = fs::LoftZ {
                    a: ta,
                    b: tb,
                    lower: num(*lo),
                    upper: num(*hi),
                }
                .into();
                let s = if *map {
                    format!(
                        "loft_z({})",
                        map_of(&[("b", Some(sb)), ("a", Some(sa)), ("lower", Some(lit(*lo))), ("upper", Some(lit(*hi)))])
                    )
                } else {
                    format!("loft_z({sa}, {sb}, {}, {})", lit(*lo), lit(*hi))
                };
                (s, tree)
            }
            Sh::Union { v, form } | Sh::Intersection { v, form } => {
                let parts: Vec<(String, Tree)> = v.iter().map(|e| e.render()).collect();
                let input: Vec<Tree> = parts.iter().map(|p| p.1.clone()).collect();
                let (name, tree): (&str, Tree) = if matches!(self, Sh::Union { .. }) {
                    ("union", fs::Union { input }.into())
                } else {
                    ("intersection", fs::Intersection { input }.into())
                };
                let list = parts.iter().map(|p| p.0.clone()).collect::<Vec<_>>().join(", ");
                let s = match form % 3 {
                    0 => format!("{name}({list})"),
                    1 => format!("{name}([{list}])"),
                    _ => format!("{name}(#{{ input: [{list}] }})"),
                };
                (s, tree)
            }
            Sh::Difference { a, b, map } => {
                let (sa, ta) = a.render();
                let (sb, tb) = b.render();
                let tree: Tree = fs::Difference {
                    shape: ta,
                    cutout: tb,
                }
                .into();
                let s = if *map {
                    format!("difference({})", map_of(&[("cutout", Some(sb)), ("shape", Some(sa))]))
                } else {
                    format!("difference({sa}, {sb})")
                };
                (s, tree)
            }
            Sh::Inverse { t, form } => {
                let (st, tt) = t.render();
                let tree: Tree = fs::Inverse { shape: tt }.into();
                let s = match form % 3 {
                    0 => format!("inverse({})", map_of(&[("shape", Some(st))])),
                    1 => format!("inverse({st})"),
                    _ if t.is_plain_tree() => format!("({st}).inverse()"),
                    _ => format!("inverse({st})"),
                };
                (s, tree)
            }
            Sh::Blend { a, b, r, map } => {
                let (sa, ta) = a.render();
                let (sb, tb) = b.render();
                let tree: Tree = fs::Blend {
                    a: ta,
                    b: tb,
                    radius: num(*r),
                }
                .into();
                let s = if *map {
                    format!("blend({})", map_of(&[("radius", Some(lit(*r))), ("a", Some(sa)), ("b", Some(sb))]))
                } else {
                    format!("blend({sa}, {sb}, {})", lit(*r))
                };
                (s, tree)
            }
        }
    }
}

/// The `order`-th permutation of the arguments, comma separated
fn permute(args: Vec<String>, order: u8) -> String {
    let n = args.len();
    let mut k = order as usize;
    let mut out = vec![];
    let mut pool = args;
    for i in (1..=n).rev() {
        out.push(pool.remove(k % i));
        k /= i;
    }
    out.join(", ")
}

/// Move / Scale forms 0-4 as in `transform_call`; 5-8 pass a vec2 where a vec3 is
/// expected, in the positional, map, tree + map and chained + map forms
fn promoted_form(form: u8) -> u8 {
    match form % 9 {
        6 => 0,
        7 => 1,
        8 => 2,
        f => f,
    }
}

/// The call forms of a one-tree transform with a single extra field
fn transform_call(name: &str, st: &str, t: &E, fields: &[(&str, String)], form: u8) -> String {
    let (k, v) = (&fields[0].0, &fields[0].1);
    match form % 6 {
        0 => format!("{name}(#{{ {k}: {v}, shape: {st} }})"),
        1 => format!("{name}({st}, #{{ {k}: {v} }})"),
        2 if t.is_plain_tree() => format!("({st}).{name}(#{{ {k}: {v} }})"),
        2 => format!("{name}({st}, #{{ {k}: {v} }})"),
        3 | 5 => format!("{name}({st}, {v})"),
        _ => format!("{name}({v}, {st})"),
    }
}

////////////////////////////////////////////////////////////////////////////////
// generation

fn k8() -> BoxedStrategy<i16> {
    prop_oneof![
        3 => (-6i16..=6).prop_map(|v| v * 8),
        3 => -48i16..=48,
        1 => Just(0i16),
    ]
    .boxed()
}
fn pos8() -> BoxedStrategy<i16> {
    (1i16..=40).boxed()
}

/// names counted in the evidence (a name followed by an opening parenthesis;
/// `rotate(` does not match `rotate_x(`, but `)\.move(` counts as move)
const CTORS: [&str; 28] = [
    "circle", "rectangle", "sphere", "box", "union", "blend", "intersection", "inverse", "difference", "move",
    "scale", "scale_uniform", "reflect", "reflect_x", "reflect_xy", "reflect_y", "reflect_z", "rotate", "rotate_x",
    "rotate_y", "rotate_z", "revolve_y", "extrude_z", "loft_z", "repeat_x", "axis", "plane", "vec3",
];

fn axis_spec() -> BoxedStrategy<AxisSpec> {
    (0u8..4, [-4i8..=4, -4i8..=4, -4i8..=4], 0u8..5)
        .prop_map(|(which, v, form)| AxisSpec { which, v, form })
        .boxed()
}
fn plane_spec() -> BoxedStrategy<PlaneSpec> {
    (prop::option::weighted(0.3, 0u8..3), axis_spec(), prop::option::of(k8()))
        .prop_map(|(named, axis, offset)| PlaneSpec { named, axis, offset })
        .boxed()
}

fn expr(depth: u32) -> BoxedStrategy<E> {
    let leaf = prop_oneof![3 => Just(E::X), 3 => Just(E::Y), 2 => Just(E::Z)];
    leaf.prop_recursive(depth, 40, 4, |inner| {
        let t = inner.clone().boxed();
        let b = |s: BoxedStrategy<E>| s.prop_map(Box::new);
        let numb = prop_oneof![
            12 => k8().prop_map(E::Num),
            2 => (0u8..NAMES.len() as u8).prop_map(E::Name),
            // integers around and beyond the 32-bit range
            1 => prop_oneof![
                Just(2147483647i64), Just(2147483648), Just(-2147483648), Just(-2147483649),
                Just(4294967296), Just(1i64 << 40), Just(-(1i64 << 40)), Just(16777217),
                (-5_000_000_000i64..=5_000_000_000),
            ]
            .prop_map(E::Big),
        ]
        .boxed();
        // operand: a tree, a number, or an array of trees
        let operand = prop_oneof![
            5 => t.clone(),
            3 => numb.clone(),
            1 => vec(t.clone(), 1..=3).prop_map(E::Arr),
        ]
        .boxed();
        let binop = prop_oneof![
            Just(BinOp::Add), Just(BinOp::Sub), Just(BinOp::Mul), Just(BinOp::Div), Just(BinOp::Mod),
            Just(BinOp::Min), Just(BinOp::Max), Just(BinOp::Compare), Just(BinOp::Mix),
            Just(BinOp::And), Just(BinOp::Or), Just(BinOp::Atan2),
        ];
        let unop = prop_oneof![
            Just(UnOp::Neg), Just(UnOp::Abs), Just(UnOp::Sqrt), Just(UnOp::Square), Just(UnOp::Floor),
            Just(UnOp::Ceil), Just(UnOp::Round), Just(UnOp::Sin), Just(UnOp::Cos), Just(UnOp::Tan),
            Just(UnOp::Asin), Just(UnOp::Acos), Just(UnOp::Atan), Just(UnOp::Exp), Just(UnOp::Ln),
            Just(UnOp::Not), Just(UnOp::Rand),
        ];
        let vf = || prop_oneof![Just(VForm::Ctor), Just(VForm::Array)];
        let shape = prop_oneof![
            (prop::option::of([k8(), k8()]), prop::option::of(pos8()), any::<bool>(), any::<bool>(), vf())
                .prop_map(|(c, r, positional, swap, vf)| Sh::Circle { c, r, positional, swap, vf }),
            (prop::option::of([k8(), k8(), k8()]), prop::option::of(pos8()), any::<bool>(), any::<bool>(), vf(), any::<bool>())
                .prop_map(|(c, r, positional, swap, vf, promote)| Sh::Sphere { c, r, positional, swap, vf, promote }),
            ([k8(), k8()], [k8(), k8()], any::<bool>(), vf()).prop_map(|(lo, hi, map, vf)| Sh::Rectangle { lo, hi, map, vf }),
            ([k8(), k8(), k8()], [k8(), k8(), k8()], any::<bool>(), vf()).prop_map(|(lo, hi, map, vf)| Sh::Box3 { lo, hi, map, vf }),
            (b(t.clone()), [k8(), k8(), k8()], 0u8..9, vf()).prop_map(|(t, o, form, vf)| Sh::Move { t, o, form, vf }),
            (b(t.clone()), [pos8(), pos8(), pos8()], 0u8..9, vf()).prop_map(|(t, s, form, vf)| Sh::Scale { t, s, form, vf }),
            (b(t.clone()), pos8(), 0u8..5).prop_map(|(t, s, form)| Sh::ScaleUniform { t, s, form }),
            (b(t.clone()), k8(), 0u8..5, 0u8..4).prop_map(|(t, o, form, which)| Sh::ReflectX { t, o, form, which }),
            (b(t.clone()), prop::option::of(k8()), prop::option::of([k8(), k8(), k8()]), 0u8..2, 0u8..6, vf(), 0u8..3)
                .prop_map(|(t, angle, center, form, order, vf, which)| Sh::RotateZ { t, angle, center, form, order, vf, which }),
            (b(t.clone()), prop::option::of(axis_spec()), prop::option::of(k8()), prop::option::of([k8(), k8(), k8()]), 0u8..2, 0u8..24, vf())
                .prop_map(|(t, axis, angle, center, form, order, vf)| Sh::Rotate { t, axis, angle, center, form, order, vf }),
            (b(t.clone()), prop::option::of(plane_spec()), 0u8..5).prop_map(|(t, plane, form)| Sh::Reflect { t, plane, form }),
            (b(t.clone()), k8(), 0u8..5).prop_map(|(t, o, form)| Sh::RevolveY { t, o, form }),
            (b(t.clone()), k8(), k8(), 0u8..3).prop_map(|(t, lo, hi, form)| Sh::ExtrudeZ { t, lo, hi, form }),
            (b(t.clone()), pos8(), k8(), 0u8..3).prop_map(|(t, r, o, form)| Sh::RepeatX { t, r, o, form }),
            (b(t.clone()), b(t.clone()), k8(), k8(), any::<bool>()).prop_map(|(a, b, lo, hi, map)| Sh::LoftZ { a, b, lo, hi, map }),
            (vec(t.clone(), 1..=8), 0u8..3).prop_map(|(v, form)| Sh::Union { v, form }),
            (vec(t.clone(), 1..=8), 0u8..3).prop_map(|(v, form)| Sh::Intersection { v, form }),
            (b(t.clone()), b(t.clone()), any::<bool>()).prop_map(|(a, b, map)| Sh::Difference { a, b, map }),
            (b(t.clone()), 0u8..3).prop_map(|(t, form)| Sh::Inverse { t, form }),
            (b(t.clone()), b(t.clone()), pos8(), any::<bool>()).prop_map(|(a, b, r, map)| Sh::Blend { a, b, r, map }),
        ];
        prop_oneof![
            6 => (binop, operand.clone(), operand.clone(), any::<bool>(), t.clone()).prop_map(|(op, a, bb, method, fallback)| {
                // at least one operand must be a plain tree (otherwise the
                // script would be number op number, or array concatenation)
                let (a, bb) = if a.is_plain_tree() || bb.is_plain_tree() {
                    (a, bb)
                } else {
                    (fallback, bb)
                };
                E::Bin { op, a: Box::new(a), b: Box::new(bb), method }
            }),
            3 => (unop, prop_oneof![6 => t.clone(), 1 => vec(t.clone(), 1..=3).prop_map(E::Arr)], any::<bool>())
                .prop_map(|(op, a, method)| E::Un { op, a: Box::new(a), method }),
            4 => shape.prop_map(E::Shape),
        ]
    })
    .boxed()
}

fn has_feature(e: &E) -> bool {
    // a non-commutative operator with the number on the left, or a constructor
    // called in a non-map form
    match e {
        E::Bin { op, a, b, .. } => {
            (matches!(op, BinOp::Sub | BinOp::Div | BinOp::Mod | BinOp::Compare | BinOp::Atan2 | BinOp::And | BinOp::Or | BinOp::Mix)
                && !a.is_tree())
                || has_feature(a)
                || has_feature(b)
        }
        E::Un { a, .. } => has_feature(a),
        E::Arr(v) => v.iter().any(has_feature),
        E::Shape(_) => true,
        _ => false,
    }
}

impl Prop for P {
    const ID: &'static str = "C17";
    type Case = Case;

    fn strategy(tier: Tier) -> BoxedStrategy<Case> {
        let d = tier.pick(5, 7);
        let let_value = prop_oneof![5 => expr(d), 1 => k8().prop_map(E::Num)];
        let script = (vec(let_value, 0..=4), expr(d), vec(0u8..=50, 4..=4))
            .prop_map(|(lets, body, names)| Case::Script { lets, body, names });
        let cmp = (0u8..6, expr(2), prop_oneof![expr(2), k8().prop_map(E::Num)], any::<bool>()).prop_map(
            |(op, a, b, swap)| {
                if swap {
                    Case::Compare { op, a: b, b: a }
                } else {
                    Case::Compare { op, a, b }
                }
            },
        );
        prop_oneof![12 => script, 1 => cmp].boxed()
    }

    fn check(case: &Case, cx: &mut Cx) -> CheckResult {
        let engine = fidget_rhai::engine();
        match case {
            Case::Script { lets, body, names } => {
                // let-bound terms are joined by +, which keeps each statement's
                // nesting below the engine's expression-depth limit
                let mut script = String::new();
                let mut terms: Vec<String> = vec![];
                let mut trees: Vec<Tree> = vec![];
                SCOPE.with(|s| s.borrow_mut().clear());
                // x / y / z are shadowed only by trees, and only in scripts
                // without shape constructors (their axis arguments may be
                // written x / y / z)
                let any_shape = body.has_shape() || lets.iter().any(|e| e.has_shape());
                let mut shadowed = false;
                let mut numeric: std::collections::HashSet<String> = Default::default();
                for (i, e) in lets.iter().enumerate() {
                    let (s, t) = e.render();
                    let sel = names.get(i).copied().unwrap_or(255) as usize;
                    let name: String = if sel < NAMES.len() {
                        NAMES[sel].0.into()
                    } else if sel < NAMES.len() + 3 && !any_shape && e.is_tree() {
                        ["x", "y", "z"][sel - NAMES.len()].into()
                    } else {
                        format!("t{i}")
                    };
                    script += &format!("let {name} = {s};\n");
                    if sel < NAMES.len() + 3 && !name.starts_with('t') {
                        SCOPE.with(|sc| sc.borrow_mut().insert(name.clone(), t.clone()));
                        shadowed = true;
                        if e.is_tree() {
                            numeric.remove(&name);
                        } else {
                            numeric.insert(name.clone());
                        }
                        cx.ev.count(if e.is_tree() { "let_shadows_name_with_tree" } else { "let_shadows_name_with_number" });
                    }
                    // numbers bound by a let are only used through their name
                    if e.is_tree() {
                        terms.push(name);
                        trees.push(t);
                    }
                }
                // a name bound more than once stands for its last binding
                for (term, tree) in terms.iter().zip(trees.iter_mut()) {
                    if let Some(t) = scope_get(term) {
                        *tree = t;
                    }
                }
                // ... and is left out of the final sum if that is a number
                let keep: Vec<bool> = terms.iter().map(|t| !numeric.contains(t)).collect();
                let mut it = keep.iter();
                terms.retain(|_| *it.next().unwrap());
                let mut it = keep.iter();
                trees.retain(|_| *it.next().unwrap());
                let (s, t) = body.render();
                let _ = shadowed;
                terms.push(s);
                trees.push(t);
                let mut last = terms[0].clone();
                let mut want = trees[0].clone();
                for i in 1..terms.len() {
                    last = format!("({last} + {})", terms[i]);
                    want = want + trees[i].clone();
                }
                script += &last;
                script += "\n";
                let got = engine.eval::<Tree>(&script).map_err(|e| {
                    Fail::new("script-rejected", format!("engine error {e}\nscript:\n{script}"))
                })?;
                cx.ev.count("scripts_evaluated");
                for name in CTORS {
                    let k = script.matches(&format!("{name}(")).count() as u64;
                    if k > 0 {
                        cx.ev.add(&format!("ctor_{name}"), k);
                    }
                }
                cx.ev.max("max_script_bytes", script.len() as u64);
                if got != want {
                    fail!(
                        "script-tree-differs",
                        "the script builds a different tree than the Rust calls\nscript:\n{script}\ngot:  {:?}\nwant: {:?}",
                        got,
                        want
                    );
                }
                if has_feature(body) || lets.iter().any(has_feature) {
                    cx.ev.nontrivial(case);
                }
                Ok(())
            }
            Case::Compare { op, a, b } => {
                if !(a.is_plain_tree() || b.is_plain_tree()) {
                    return Ok(());
                }
                let ops = ["==", "!=", "<", ">", "<=", ">="];
                let script = format!("{} {} {}", a.render().0, ops[*op as usize % 6], b.render().0);
                let r = engine.eval::<rhai::Dynamic>(&script);
                cx.ev.count("comparison_scripts");
                ensure!(
                    r.is_err(),
                    "comparison-accepted",
                    "comparison on trees was not rejected: {script}"
                );
                cx.ev.nontrivial(case);
                Ok(())
            }
        }
    }

    fn plan(tier: Tier) -> Plan {
        match tier {
            Tier::Quick => Plan {
                workers: 16,
                cases_per_worker: 5000,
                timeout_s: 1800,
                max_shrink_iters: 3000,
            },
            Tier::Thorough => Plan {
                workers: 16,
                cases_per_worker: 200000,
                timeout_s: 14400,
                max_shrink_iters: 3000,
            },
        }
    }

    fn rule() -> &'static str {
        "scripts generated from a grammar together with the expected Tree built by the corresponding Rust calls: infix \
         operators + - * / % and named functions min max compare mix and or atan2 with a tree on either side and an integer \
         or float literal on the other (also in method form a.f(b)); unary functions and prefix minus; arrays of trees where \
         a tree is expected (coerced to a union); let bindings; all 26 shape constructors (axes and planes written axis(..) / plane(..) from names, characters, \
         vectors or x / y / z) in the call forms that apply to each \
         (map with defaults omitted or given and keys in any order, unique-typed positional arguments in any order, ordered \
         positional, tree-first + map, chained method + map, two-tree, variadic / array / map reductions with 1-8 trees), \
         vectors written vecN(..) or as arrays, vec2 -> vec3 promotion with the default z. Oracle: structural == on Tree \
         between engine().eval::<Tree>(script) and the Rust-built tree. Comparison operators applied to trees must be \
         rejected with an error. Pure number-op-number sub-expressions are never generated (Rhai defines them). \
         Non-trivial = a non-commutative operator with the number on the left, or a shape constructor, or a comparison."
    }
}
