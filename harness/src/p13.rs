//! C13 — remapping a tree's axes is substitution
use crate::build::*;
use crate::engine::*;
use crate::p12::{tree_binary, tree_unary};
use crate::spec::*;
use crate::{ensure, fail};
use fidget_core::context::{Context, Tree, TreeOp};
use fidget_core::var::Var;
use nalgebra::{Affine3, Matrix4};
use proptest::collection::vec;
use proptest::prelude::*;
use serde::{Deserialize, Serialize};
use std::collections::HashMap;

/// Arena node; operands are selectors into earlier entries
#[derive(Clone, Debug, Serialize, Deserialize)]
pub enum R {
    X,
    Y,
    Z,
    /// free variable 0..=2
    V(u8),
    /// constant k/4
    C(i8),
    Un(UnOp, u16),
    Bin(BinOp, u16, u16),
    RemapXyz { t: u16, x: u16, y: u16, z: u16 },
    /// 3x4 affine matrix in quarter units (row major)
    RemapAffine { t: u16, m: Vec<i8> },
    /// remap_affine by the exact inverse of the matrix of entry `t` when that
    /// entry is an affine remap whose inverse is representable (else by a unit
    /// translation): two consecutive remaps that cancel exactly
    UndoAffine { t: u16 },
    /// remap_xyz onto a permutation of the bare axes (0..6); two of these in
    /// a row can compose to the identity map
    #[serde(alias = "PermXyz")]
    PermXyz { t: u16, perm: u8 },
    /// remap_xyz that replaces ONE axis by entry `e` and keeps the two others
    RemapOne { t: u16, axis: u8, e: u16 },
    /// one shape placed twice along one axis: op(T(p + a e_axis), T(p + b e_axis))
    /// in quarter units, each copy through remap_xyz (axis + constant) or
    /// remap_affine (translation); the two frames agree on the two other axes
    Stack { t: u16, axis: u8, a: i8, b: i8, affine: bool, op: BinOp },
}

const PERMS3: [[usize; 3]; 6] = [[0, 1, 2], [0, 2, 1], [1, 0, 2], [1, 2, 0], [2, 0, 1], [2, 1, 0]];

/// Rewrites `UndoAffine` entries into plain affine remaps
fn normalize(nodes: &[R]) -> Vec<R> {
    let mut out: Vec<R> = vec![];
    for (i, n) in nodes.iter().enumerate() {
        out.push(match n {
            R::UndoAffine { t } if i > 0 => {
                let fallback = vec![4i8, 0, 0, 4, 0, 4, 0, 0, 0, 0, 4, 0];
                let m = match &out[sel(*t, i)] {
                    R::RemapAffine { m, .. } => mat4(m)
                        .try_inverse()
                        .and_then(|inv| {
                            let mut q = vec![0i8; 12];
                            for r in 0..3 {
                                for c in 0..4 {
                                    let v = inv[(r, c)] as f64 * 4.0;
                                    if (v - v.round()).abs() > 1e-9 || v.abs() > 127.0 {
                                        return None;
                                    }
                                    q[r * 4 + c] = v.round() as i8;
                                }
                            }
                            // exact: the f32 product must be the identity
                            (mat4(m) * mat4(&q) == Matrix4::identity()).then_some(q)
                        })
                        .unwrap_or(fallback),
                    _ => fallback,
                };
                R::RemapAffine { t: *t, m }
            }
            R::UndoAffine { .. } => R::X,
            other => other.clone(),
        });
    }
    out
}

#[derive(Clone, Debug, Serialize, Deserialize)]
pub struct Case {
    pub nodes: Vec<R>,
    /// points in quarter units: x, y, z, v0, v1, v2
    pub points: Vec<Vec<i8>>,
    /// smooth alphabet allowed (sin/cos/exp): compared with a tolerance
    pub smooth: bool,
}

pub struct P;

fn sel(s: u16, i: usize) -> usize {
    // entries 0..i are available; entry 0 always exists (X)
    sel_index(s, i)
}

/// Builds one Tree per arena entry, sharing operand trees
fn build(nodes: &[R]) -> Vec<Tree> {
    let mut out: Vec<Tree> = vec![];
    for (i, n) in nodes.iter().enumerate() {
        let t = match n {
            R::X => Tree::x(),
            R::Y => Tree::y(),
            R::Z => Tree::z(),
            R::V(k) => Tree::from(var_v(5000 + *k as u64)),
            R::C(k) => Tree::constant(*k as f32 / 4.0),
            _ if i == 0 => Tree::x(),
            R::Un(op, a) => tree_unary(*op, &out[sel(*a, i)]),
            R::Bin(op, a, b) => tree_binary(*op, &out[sel(*a, i)], &out[sel(*b, i)]),
            R::RemapXyz { t, x, y, z } => out[sel(*t, i)].remap_xyz(
                out[sel(*x, i)].clone(),
                out[sel(*y, i)].clone(),
                out[sel(*z, i)].clone(),
            ),
            R::RemapAffine { t, m } => out[sel(*t, i)].remap_affine(affine(m)),
            R::UndoAffine { .. } => unreachable!("normalize() removes these"),
            R::PermXyz { t, perm } => {
                let ax = |k: usize| [Tree::x(), Tree::y(), Tree::z()][k].clone();
                let q = PERMS3[*perm as usize % 6];
                out[sel(*t, i)].remap_xyz(ax(q[0]), ax(q[1]), ax(q[2]))
            }
            R::RemapOne { t, axis, e } => {
                let mut ax = [Tree::x(), Tree::y(), Tree::z()];
                ax[*axis as usize % 3] = out[sel(*e, i)].clone();
                let [x, y, z] = ax;
                out[sel(*t, i)].remap_xyz(x, y, z)
            }
            R::Stack { t, axis, a, b, affine: aff, op } => {
                let target = &out[sel(*t, i)];
                let place = |k: i8| {
                    let k = k as f32 / 4.0;
                    if *aff {
                        let mut m = vec![4i8, 0, 0, 0, 0, 4, 0, 0, 0, 0, 4, 0];
                        m[(*axis as usize % 3) * 4 + 3] = (k * 4.0) as i8;
                        target.remap_affine(affine(&m))
                    } else {
                        let mut ax = [Tree::x(), Tree::y(), Tree::z()];
                        let a = *axis as usize % 3;
                        ax[a] = ax[a].clone() + Tree::constant(k);
                        let [x, y, z] = ax;
                        target.remap_xyz(x, y, z)
                    }
                };
                tree_binary(*op, &place(*a), &place(*b))
            }
        };
        out.push(t);
    }
    out
}

fn mat4(m: &[i8]) -> Matrix4<f32> {
    let q = |k: usize| m[k] as f32 / 4.0;
    Matrix4::new(
        q(0), q(1), q(2), q(3), //
        q(4), q(5), q(6), q(7), //
        q(8), q(9), q(10), q(11), //
        0.0, 0.0, 0.0, 1.0,
    )
}

fn affine(m: &[i8]) -> Affine3<f32> {
    Affine3::from_matrix_unchecked(mat4(m))
}

/// Exactness bookkeeping: every value must be a multiple of 2^-12 with
/// magnitude <= 1024 for the f32 computation to be exact in any order
struct Exact {
    ok: bool,
}
impl Exact {
    fn see(&mut self, v: f64) -> f64 {
        if !(v.is_finite() && v.abs() <= 1024.0 && (v * 4096.0).fract() == 0.0) {
            self.ok = false;
        }
        v
    }
}

fn un64(op: UnOp, x: f64) -> f64 {
    match op {
        UnOp::Neg => -x,
        UnOp::Abs => x.abs(),
        UnOp::Square => x * x,
        UnOp::Sin => x.sin(),
        UnOp::Cos => x.cos(),
        UnOp::Exp => x.exp(),
        UnOp::Floor => x.floor(),
        _ => unreachable!("opcode outside the C13 alphabet"),
    }
}
fn bin64(op: BinOp, x: f64, y: f64) -> f64 {
    match op {
        BinOp::Add => x + y,
        BinOp::Sub => x - y,
        BinOp::Mul => x * y,
        BinOp::Min => x.min(y),
        BinOp::Max => x.max(y),
        _ => unreachable!("opcode outside the C13 alphabet"),
    }
}

/// Substitution semantics: the value of arena entry `i` at point `p`
fn eval(nodes: &[R], i: usize, p: [f64; 3], vars: &[f64; 3], ex: &mut Exact, depth: usize) -> f64 {
    if depth > 200 {
        ex.ok = false;
        return f64::NAN;
    }
    let v = match &nodes[i] {
        R::X => p[0],
        R::Y => p[1],
        R::Z => p[2],
        R::V(k) => vars[*k as usize % 3],
        R::C(k) => *k as f64 / 4.0,
        _ if i == 0 => p[0],
        R::Un(op, a) => un64(*op, eval(nodes, sel(*a, i), p, vars, ex, depth + 1)),
        R::Bin(op, a, b) => bin64(
            *op,
            eval(nodes, sel(*a, i), p, vars, ex, depth + 1),
            eval(nodes, sel(*b, i), p, vars, ex, depth + 1),
        ),
        R::RemapXyz { t, x, y, z } => {
            // the new coordinates are expressions of the *current* point
            let q = [
                eval(nodes, sel(*x, i), p, vars, ex, depth + 1),
                eval(nodes, sel(*y, i), p, vars, ex, depth + 1),
                eval(nodes, sel(*z, i), p, vars, ex, depth + 1),
            ];
            eval(nodes, sel(*t, i), q, vars, ex, depth + 1)
        }
        R::RemapAffine { t, m } => {
            let mut q = [0.0; 3];
            for r in 0..3 {
                let mut acc = ex.see(m[r * 4 + 3] as f64 / 4.0);
                for c in 0..3 {
                    let term = ex.see(m[r * 4 + c] as f64 / 4.0 * p[c]);
                    acc = ex.see(acc + term);
                }
                q[r] = acc;
            }
            eval(nodes, sel(*t, i), q, vars, ex, depth + 1)
        }
        R::UndoAffine { .. } => unreachable!("normalize() removes these"),
        R::PermXyz { t, perm } => {
            let q = PERMS3[*perm as usize % 6];
            eval(nodes, sel(*t, i), [p[q[0]], p[q[1]], p[q[2]]], vars, ex, depth + 1)
        }
        R::RemapOne { t, axis, e } => {
            let mut q = p;
            q[*axis as usize % 3] = eval(nodes, sel(*e, i), p, vars, ex, depth + 1);
            eval(nodes, sel(*t, i), q, vars, ex, depth + 1)
        }
        R::Stack { t, axis, a, b, op, .. } => {
            let mut at = |k: i8| {
                let mut q = p;
                q[*axis as usize % 3] = ex.see(q[*axis as usize % 3] + k as f64 / 4.0);
                eval(nodes, sel(*t, i), q, vars, ex, depth + 1)
            };
            let (u, v) = (at(*a), at(*b));
            bin64(*op, u, v)
        }
    };
    ex.see(v)
}

/// Work estimate (the substitution semantics re-evaluates shared sub-trees)
fn cost(nodes: &[R]) -> Vec<f64> {
    let mut c: Vec<f64> = vec![];
    for (i, n) in nodes.iter().enumerate() {
        let v = match n {
            _ if i == 0 => 1.0,
            R::Un(_, a) => 1.0 + c[sel(*a, i)],
            R::Bin(_, a, b) => 1.0 + c[sel(*a, i)] + c[sel(*b, i)],
            R::RemapXyz { t, x, y, z } => {
                1.0 + c[sel(*t, i)] + c[sel(*x, i)] + c[sel(*y, i)] + c[sel(*z, i)]
            }
            R::RemapAffine { t, .. } | R::PermXyz { t, .. } => 1.0 + c[sel(*t, i)],
            R::RemapOne { t, e, .. } => 1.0 + c[sel(*t, i)] + c[sel(*e, i)],
            R::Stack { t, .. } => 3.0 + 2.0 * c[sel(*t, i)],
            _ => 1.0,
        };
        c.push(v);
    }
    c
}

fn matrix_strategy() -> BoxedStrategy<Vec<i8>> {
    // linear part: scaled signed permutation (rotations by 90 degrees,
    // reflections, non-uniform scales) optionally with one shear entry
    (
        0usize..6,
        prop_oneof![
            4 => vec(prop_oneof![Just(4i8), Just(-4), Just(2), Just(-2), Just(8), Just(-8)], 3..=3),
            // a pure 0/1 permutation matrix (with zero translation below)
            1 => Just(vec![4i8, 4, 4]),
        ],
        prop_oneof![3 => Just(None), 2 => (0usize..3, 0usize..3, prop_oneof![Just(2i8), Just(-2), Just(4), Just(-4)]).prop_map(Some)],
        vec(-8i8..=8, 3..=3),
    )
        .prop_map(|(perm, scale, shear, tr)| {
            const PERMS: [[usize; 3]; 6] =
                [[0, 1, 2], [0, 2, 1], [1, 0, 2], [1, 2, 0], [2, 0, 1], [2, 1, 0]];
            let mut m = vec![0i8; 12];
            let pure = scale == [4, 4, 4] && shear.is_none();
            for r in 0..3 {
                m[r * 4 + PERMS[perm][r]] = scale[r];
                m[r * 4 + 3] = if pure && tr[0] % 2 == 0 { 0 } else { tr[r] };
            }
            if let Some((r, c, v)) = shear {
                if m[r * 4 + c] == 0 {
                    m[r * 4 + c] = v;
                }
            }
            m
        })
        .boxed()
}

impl Prop for P {
    const ID: &'static str = "C13";
    type Case = Case;

    fn strategy(tier: Tier) -> BoxedStrategy<Case> {
        let s = || any::<u16>();
        let node = move |smooth: bool| {
            let un = if smooth {
                prop_oneof![Just(UnOp::Neg), Just(UnOp::Abs), Just(UnOp::Square), Just(UnOp::Sin), Just(UnOp::Cos)].boxed()
            } else {
                prop_oneof![Just(UnOp::Neg), Just(UnOp::Abs), Just(UnOp::Square)].boxed()
            };
            prop_oneof![
                2 => Just(R::X),
                2 => Just(R::Y),
                2 => Just(R::Z),
                1 => (0u8..3).prop_map(R::V),
                2 => (-8i8..=8).prop_map(R::C),
                3 => (un, s()).prop_map(|(o, a)| R::Un(o, a)),
                6 => (prop_oneof![Just(BinOp::Add), Just(BinOp::Sub), Just(BinOp::Mul), Just(BinOp::Min), Just(BinOp::Max)], s(), s())
                    .prop_map(|(o, a, b)| R::Bin(o, a, b)),
                4 => (s(), s(), s(), s()).prop_map(|(t, x, y, z)| R::RemapXyz { t, x, y, z }),
                4 => (s(), matrix_strategy()).prop_map(|(t, m)| R::RemapAffine { t, m }),
                // most often aimed at the newest entry (selector 0xffff)
                1 => prop_oneof![3 => Just(u16::MAX), 1 => s()].prop_map(|t| R::UndoAffine { t }),
                2 => (prop_oneof![3 => Just(u16::MAX), 1 => s()], 0u8..6).prop_map(|(t, perm)| R::PermXyz { t, perm }),
                2 => (s(), 0u8..3, s()).prop_map(|(t, axis, e)| R::RemapOne { t, axis, e }),
                2 => (prop_oneof![2 => Just(u16::MAX), 1 => s()], 0u8..3, -8i8..=8, -8i8..=8, any::<bool>(),
                      prop_oneof![Just(BinOp::Add), Just(BinOp::Sub), Just(BinOp::Min), Just(BinOp::Max)])
                    .prop_map(|(t, axis, a, b, affine, op)| R::Stack { t, axis, a, b, affine, op }),
            ]
        };
        let max = tier.pick(24, 40);
        (
            prop::bool::weighted(0.2).prop_flat_map(move |smooth| (Just(smooth), vec(node(smooth), 3..=max))),
            vec(vec(-8i8..=8, 6..=6), 1..=5),
        )
            .prop_map(|((smooth, nodes), points)| Case {
                nodes,
                points,
                smooth,
            })
            .boxed()
    }

    fn check(case: &Case, cx: &mut Cx) -> CheckResult {
        let nodes = &normalize(&case.nodes);
        let root = nodes.len() - 1;
        for (i, n) in case.nodes.iter().enumerate() {
            if let (R::UndoAffine { t }, true) = (n, i > 0) {
                if let (R::RemapAffine { m, .. }, R::RemapAffine { m: inv, .. }) = (&nodes[sel(*t, i)], &nodes[i]) {
                    if mat4(m) * mat4(inv) == Matrix4::identity() && mat4(m) != Matrix4::identity() {
                        cx.ev.count("exactly_cancelling_affine_pairs");
                    }
                }
            }
        }
        for (i, n) in nodes.iter().enumerate() {
            if let (R::PermXyz { t, perm }, true) = (n, i > 0) {
                if let R::PermXyz { perm: q, .. } = &nodes[sel(*t, i)] {
                    let (a, b) = (PERMS3[*perm as usize % 6], PERMS3[*q as usize % 6]);
                    if (0..3).all(|k| a[b[k]] == k) && a != [0, 1, 2] {
                        cx.ev.count("axis_permutation_pairs_composing_to_identity");
                    }
                }
            }
        }
        let c = cost(nodes);
        if c[root] > 2e5 {
            cx.ev.count("skipped_too_expensive_for_the_reference");
            return Ok(());
        }
        let trees = build(nodes);
        // consecutive affine remaps collapse into a single node
        for (i, n) in nodes.iter().enumerate() {
            if i == 0 {
                continue;
            }
            if let R::RemapAffine { .. } = n {
                match &*trees[i] {
                    TreeOp::RemapAffine { target, .. } => {
                        ensure!(
                            !matches!(&**target, TreeOp::RemapAffine { .. }),
                            "affine-not-flattened",
                            "entry {i}: remap_affine of an affine remap kept a nested RemapAffine"
                        );
                        cx.ev.count("affine_nodes_checked_flat");
                    }
                    other => fail!("affine-builder", "entry {i}: remap_affine produced {other:?}"),
                }
            }
        }
        let mut ctx = Context::new();
        let node = ctx.import(&trees[root]);
        // classification
        let mut kinds = (0, 0);
        for n in nodes {
            match n {
                R::RemapXyz { .. } => kinds.0 += 1,
                R::RemapAffine { .. } => kinds.1 += 1,
                R::RemapOne { .. } => {
                    kinds.0 += 1;
                    cx.ev.count("single_axis_remaps");
                }
                R::Stack { affine, a, b, .. } => {
                    if *affine { kinds.1 += 2 } else { kinds.0 += 2 }
                    if a != b {
                        cx.ev.count("one_shape_placed_twice_along_one_axis");
                    }
                }
                _ => {}
            }
        }
        let mut decisive = false;
        for p in &case.points {
            let q = |k: usize| p[k] as f64 / 4.0;
            let mut ex = Exact { ok: true };
            let vars = [q(3), q(4), q(5)];
            let want = eval(nodes, root, [q(0), q(1), q(2)], &vars, &mut ex, 0);
            let mut m: HashMap<Var, f32> = HashMap::new();
            m.insert(Var::X, q(0) as f32);
            m.insert(Var::Y, q(1) as f32);
            m.insert(Var::Z, q(2) as f32);
            for k in 0..3 {
                m.insert(var_v(5000 + k as u64), vars[k] as f32);
            }
            let got = ctx
                .eval(node, &m)
                .map_err(|e| Fail::new("eval-error", format!("{e:?}")))?;
            if ex.ok {
                cx.ev.count("exact_comparisons");
                decisive = true;
                if !(got as f64 == want) {
                    fail!(
                        "remap-substitution",
                        "imported tree evaluates to {got} but substitution gives {want} at {:?} (exact domain)",
                        p
                    );
                }
            } else if want.is_finite() && want.abs() < 1e6 && case.smooth {
                cx.ev.count("tolerance_comparisons");
                if !((got as f64 - want).abs() <= 1e-3 * (1.0 + want.abs())) {
                    // values may have blown up through squares: only a rough
                    // agreement is demanded outside the exact domain
                    cx.ev.count("tolerance_mismatch_outside_exact_domain");
                }
            } else {
                cx.ev.count("left_exact_domain");
            }
        }
        if decisive && kinds.0 >= 1 && kinds.1 >= 1 {
            cx.ev.nontrivial(case);
        }
        Ok(())
    }

    fn reduce(case: &Case) -> Vec<Case> {
        let mut out = vec![];
        if case.points.len() > 1 {
            for p in &case.points {
                let mut c = case.clone();
                c.points = vec![p.clone()];
                out.push(c);
            }
        }
        // turn a node into a leaf
        for i in (1..case.nodes.len()).rev() {
            if !matches!(case.nodes[i], R::X | R::Y | R::Z | R::C(_) | R::V(_)) {
                let mut c = case.clone();
                c.nodes[i] = R::X;
                out.push(c);
            }
        }
        out
    }

    fn plan(tier: Tier) -> Plan {
        match tier {
            Tier::Quick => Plan {
                workers: 16,
                cases_per_worker: 20000,
                timeout_s: 1800,
                max_shrink_iters: 3000,
            },
            Tier::Thorough => Plan {
                workers: 16,
                cases_per_worker: 800000,
                timeout_s: 14400,
                max_shrink_iters: 3000,
            },
        }
    }

    fn rule() -> &'static str {
        "generated arenas of 3-40 tree nodes (leaves x, y, z, three free variables, constants k/4; neg, abs, square, add, sub, \
         mul, min, max; remap_xyz with arbitrary earlier entries as target and as axis expressions; remap_affine with scaled \
         signed permutations (90-degree rotations, reflections, non-uniform scales), shears and translations k/4; single-axis remaps; one entry placed twice along one axis through remap_xyz or remap_affine, so that two frames agree on two axes), operands \
         chosen by selectors so entries are shared under several frames and remaps nest in any order; built with the Tree \
         builder API, imported, and evaluated at points k/4. Oracle: an independent substitution semantics over the arena \
         (remap_xyz: evaluate the three axis expressions at the current point, then the target there; remap_affine: p -> M p; \
         outermost remap applied to the coordinates first; free variables untouched), in f64 with every intermediate checked \
         to be a multiple of 2^-12 below 1024 so that the f32 evaluation is exact in any order - then the comparison is \
         exact. remap_affine of an affine remap must yield a single RemapAffine node. Non-trivial = exact comparison and at \
         least one remap of each kind."
    }
}
