//! C15 — serialized bytecode, read per its documented format, computes the tape
use crate::build::*;
use crate::engine::*;
use crate::gens;
use crate::p01::BUDGETS;
use crate::refsem::{self, same};
use crate::spec::*;
use crate::{ensure, fail};
use fidget_bytecode::{Bytecode, iter_ops};
use fidget_core::compiler::RegOp;
use fidget_core::context::{BinaryOpcode, Op, UnaryOpcode};
use fidget_core::eval::{Function, MathFunction, TracingEvaluator};
use fidget_core::vm::GenericVmFunction;
use proptest::collection::vec;
use proptest::prelude::*;
use serde::{Deserialize, Serialize};
use std::collections::HashMap;

#[derive(Clone, Debug, Serialize, Deserialize)]
pub struct Case {
    pub dag: DagSpec,
    pub outs: Option<Vec<u16>>,
    pub points: Vec<Vec<Fl>>,
    pub budget: usize,
}

pub struct P;

const UNARY: [(&str, UnOp); 18] = [
    ("Neg", UnOp::Neg),
    ("Abs", UnOp::Abs),
    ("Recip", UnOp::Recip),
    ("Sqrt", UnOp::Sqrt),
    ("Square", UnOp::Square),
    ("Floor", UnOp::Floor),
    ("Ceil", UnOp::Ceil),
    ("Round", UnOp::Round),
    ("Not", UnOp::Not),
    ("Rand", UnOp::Rand),
    ("Sin", UnOp::Sin),
    ("Cos", UnOp::Cos),
    ("Tan", UnOp::Tan),
    ("Asin", UnOp::Asin),
    ("Acos", UnOp::Acos),
    ("Atan", UnOp::Atan),
    ("Exp", UnOp::Exp),
    ("Ln", UnOp::Ln),
];
const BINARY: [(&str, BinOp); 12] = [
    ("Add", BinOp::Add),
    ("Sub", BinOp::Sub),
    ("Mul", BinOp::Mul),
    ("Div", BinOp::Div),
    ("Atan2", BinOp::Atan2),
    ("Compare", BinOp::Compare),
    ("Mix", BinOp::Mix),
    ("Mod", BinOp::Mod),
    ("Min", BinOp::Min),
    ("Max", BinOp::Max),
    ("And", BinOp::And),
    ("Or", BinOp::Or),
];

/// An interpreter written from the module documentation only
pub fn interpret(
    data: &[u32],
    reg_count: u8,
    mem_count: u32,
    inputs: &[f32],
    nout: usize,
) -> Result<Vec<f32>, String> {
    let names: HashMap<u8, &str> = iter_ops().map(|(n, v)| (v, n)).collect();
    if data.len() % 2 != 0 {
        return Err(format!("odd length {}", data.len()));
    }
    if data.len() < 4 || data[0] != 0xFFFF_FFFF || data[1] != 0 {
        return Err(format!("bad start marker {:08x?}", &data[..data.len().min(2)]));
    }
    if data[data.len() - 2] != 0xFFFF_FFFF || data[data.len() - 1] != 0xFFFF_FFFF {
        return Err("bad end marker".into());
    }
    let mut reg = vec![f32::NAN; reg_count as usize];
    let mut mem = vec![f32::NAN; mem_count as usize];
    let mut out = vec![f32::NAN; nout];
    let mut written = vec![false; nout];
    let body = &data[2..data.len() - 2];
    for (k, pair) in body.chunks(2).enumerate() {
        let [op, b1, b2, b3] = pair[0].to_le_bytes();
        let imm_bits = pair[1];
        let imm = f32::from_bits(imm_bits);
        let name = *names
            .get(&op)
            .ok_or_else(|| format!("instruction {k}: unknown opcode {op}"))?;
        let r = |b: u8, what: &str, reg: &Vec<f32>| -> Result<f32, String> {
            if b == 0xFF {
                return Err(format!("instruction {k} ({name}): {what} uses the reserved register"));
            }
            reg.get(b as usize)
                .copied()
                .ok_or_else(|| format!("instruction {k} ({name}): {what} register {b} >= reg_count {reg_count}"))
        };
        let w = |b: u8, v: f32, reg: &mut Vec<f32>| -> Result<(), String> {
            if b == 0xFF {
                return Err(format!("instruction {k} ({name}): writes the reserved register"));
            }
            match reg.get_mut(b as usize) {
                Some(s) => {
                    *s = v;
                    Ok(())
                }
                None => Err(format!("instruction {k} ({name}): output register {b} >= reg_count {reg_count}")),
            }
        };
        match name {
            "Output" => {
                let v = r(b1, "source", &reg)?;
                let i = imm_bits as usize;
                if i >= nout {
                    return Err(format!("instruction {k}: output index {i} >= {nout}"));
                }
                out[i] = v;
                written[i] = true;
            }
            "Input" => {
                let i = imm_bits as usize;
                let v = *inputs
                    .get(i)
                    .ok_or_else(|| format!("instruction {k}: input index {i} >= {}", inputs.len()))?;
                w(b1, v, &mut reg)?;
            }
            "Copy" => {
                let v = if b2 == 0xFF { imm } else { r(b2, "source", &reg)? };
                w(b1, v, &mut reg)?;
            }
            "Mem" => {
                let slot = imm_bits as usize;
                if slot >= mem.len() {
                    return Err(format!("instruction {k}: memory slot {slot} >= mem_count {mem_count}"));
                }
                if b2 == 0xFF && b1 != 0xFF {
                    // load
                    let v = mem[slot];
                    w(b1, v, &mut reg)?;
                } else if b1 == 0xFF && b2 != 0xFF {
                    mem[slot] = r(b2, "stored", &reg)?;
                } else {
                    return Err(format!("instruction {k}: Mem with bytes {b1:02x} {b2:02x}: direction unclear"));
                }
            }
            n => {
                if let Some((_, o)) = UNARY.iter().find(|(s, _)| *s == n) {
                    let a = r(b2, "operand", &reg)?;
                    w(b1, refsem::un(*o, a), &mut reg)?;
                } else if let Some((_, o)) = BINARY.iter().find(|(s, _)| *s == n) {
                    if b2 == 0xFF && b3 == 0xFF {
                        return Err(format!("instruction {k} ({n}): both operands immediate"));
                    }
                    let a = if b2 == 0xFF { imm } else { r(b2, "lhs", &reg)? };
                    let b = if b3 == 0xFF { imm } else { r(b3, "rhs", &reg)? };
                    w(b1, refsem::bin(*o, a, b), &mut reg)?;
                } else {
                    return Err(format!("instruction {k}: opcode name {n} not in the documented set"));
                }
            }
        }
    }
    if let Some(i) = written.iter().position(|w| !*w) {
        return Err(format!("output {i} never written"));
    }
    Ok(out)
}

fn run<const N: usize>(case: &Case, cx: &mut Cx) -> CheckResult {
    let b = build_dag(&case.dag);
    let roots = crate::p01::roots_of(&b, &case.outs);
    let f = GenericVmFunction::<N>::new(&b.ctx, &roots).unwrap();
    let bc = Bytecode::new(f.data()).map_err(|e| Fail::new("bytecode-build-error", format!("{e}")))?;
    ensure!(bc.len() == bc.data().len(), "len", "len() {} != data().len() {}", bc.len(), bc.data().len());
    ensure!(
        bc.as_bytes().len() == 4 * bc.len(),
        "as-bytes",
        "as_bytes has {} bytes for {} words",
        bc.as_bytes().len(),
        bc.len()
    );
    // little-endian words
    for (i, w) in bc.data().iter().enumerate().take(64) {
        ensure!(
            bc.as_bytes()[4 * i..4 * i + 4] == w.to_le_bytes(),
            "as-bytes",
            "word {i} is not little-endian in as_bytes"
        );
    }
    // classification
    let mut mem_ops = 0;
    let mut imm_forms = 0;
    for op in f.data().iter_asm() {
        match op {
            RegOp::Load(..) | RegOp::Store(..) => mem_ops += 1,
            _ => {
                let s = format!("{op:?}");
                if s.contains("ImmReg") || s.contains("RegImm") {
                    imm_forms += 1;
                }
            }
        }
    }
    cx.ev.count(&format!("budget_{N}"));
    if mem_ops > 0 {
        cx.ev.count("tapes_with_memory_traffic");
    }
    ensure!(
        (mem_ops > 0) == (bc.mem_count() > 0),
        "mem-count",
        "tape has {mem_ops} memory ops but mem_count is {}",
        bc.mem_count()
    );
    if mem_ops > 0 && imm_forms > 0 {
        cx.ev.nontrivial(case);
    }
    let vm = f.vars();
    let mut order = vec![0usize; vm.len()];
    for (i, v) in b.vars.iter().enumerate() {
        if let Some(s) = vm.get(v) {
            order[s] = i;
        }
    }
    let tape = f.point_tape(Default::default());
    let mut pe = GenericVmFunction::<N>::new_point_eval();
    let order_nodes = topo(&b.ctx, &roots);
    for p in &case.points {
        let input: Vec<f32> = order.iter().map(|o| p[*o].0).collect();
        let want = pe.eval(&tape, &input).unwrap().0.to_vec();
        let got = interpret(bc.data(), bc.reg_count(), bc.mem_count(), &input, roots.len())
            .map_err(|e| Fail::new("bytecode-malformed", e))?;
        // hashes of NaN payloads are unspecified (see C01)
        let vals = eval_all(&b.ctx, &roots, &point_map(&b.vars, p));
        let mut taint: HashMap<_, bool> = HashMap::new();
        for n in &order_nodes {
            let op = *b.ctx.get_op(*n).unwrap();
            let mut t = op.iter_children().any(|c| taint[&c]);
            match op {
                Op::Unary(UnaryOpcode::Rand, a) if vals[&a].is_nan() => t = true,
                Op::Binary(BinaryOpcode::Mix, l, r) if vals[&l].is_nan() || vals[&r].is_nan() => t = true,
                _ => {}
            }
            taint.insert(*n, t);
        }
        for k in 0..roots.len() {
            if taint[&roots[k]] {
                continue;
            }
            cx.ev.count("output_comparisons");
            if !same(got[k], want[k]) {
                fail!(
                    "bytecode-differs",
                    "N={N}: output {k} ({:?}): bytecode interpreter {} vs VM interpreter {} at {:?}",
                    b.ctx.get_op(roots[k]).unwrap(),
                    fl_to_string(got[k]),
                    fl_to_string(want[k]),
                    p
                );
            }
        }
    }
    Ok(())
}

impl Prop for P {
    const ID: &'static str = "C15";
    type Case = Case;

    fn strategy(tier: Tier) -> BoxedStrategy<Case> {
        let mut p = gens::DagParams::all(tier.pick(60, 250));
        p.min_vars = 0;
        let mut pw = gens::DagParams::all(60);
        pw.consts = gens::fl_moderate();
        let ordinary = (
            gens::dag(p),
            prop_oneof![2 => Just(None), 3 => vec(any::<u16>(), 1..=8).prop_map(Some)],
            gens::points(1..=5, gens::fl_any()),
            // small budgets (memory traffic) and the default
            prop_oneof![4 => 2usize..=6, 1 => 7usize..BUDGETS.len()],
        );
        // wide programs at the default budget: every one of the 255 registers in
        // use (and a few memory slots beyond); register 255 itself stays reserved
        let wide = (
            gens::dag_wide(pw, 1..=6, 250..=300, false),
            prop_oneof![2 => Just(None), 1 => vec(any::<u16>(), 1..=8).prop_map(Some)],
            gens::points(1..=3, gens::fl_any()),
            Just(BUDGETS.len() - 1),
        );
        let to_case = |(dag, outs, points, budget)| {
            let points = gens::coincide(&dag, points);
            Case { dag, outs, points, budget }
        };
        prop_oneof![
            tier.pick(300, 100) => ordinary.prop_map(to_case),
            1 => wide.prop_map(to_case),
        ]
        .boxed()
    }

    fn check(case: &Case, cx: &mut Cx) -> CheckResult {
        match BUDGETS[case.budget % BUDGETS.len()] {
            1 | 2 | 3 => run::<3>(case, cx),
            4 => run::<4>(case, cx),
            5 => run::<5>(case, cx),
            6 => run::<6>(case, cx),
            8 => run::<8>(case, cx),
            12 => run::<12>(case, cx),
            16 => run::<16>(case, cx),
            32 => run::<32>(case, cx),
            _ => run::<255>(case, cx),
        }
    }

    fn reduce(case: &Case) -> Vec<Case> {
        crate::p01::P::reduce(&crate::p01::Case {
            dag: case.dag.clone(),
            outs: case.outs.clone(),
            points: case.points.clone(),
            budget: case.budget,
        })
        .into_iter()
        .map(|c| Case {
            dag: c.dag,
            outs: c.outs,
            points: c.points,
            budget: c.budget,
        })
        .collect()
    }

    fn plan(tier: Tier) -> Plan {
        match tier {
            Tier::Quick => Plan {
                workers: 16,
                cases_per_worker: 15000,
                timeout_s: 1800,
                max_shrink_iters: 2000,
            },
            Tier::Thorough => Plan {
                workers: 16,
                cases_per_worker: 500000,
                timeout_s: 14400,
                max_shrink_iters: 2000,
            },
        }
    }

    fn rule() -> &'static str {
        "C01's DAG generator x register budgets N in {3,4,5,6,8,12,16,32,255} (small ones force Load/Store) x 1-5 input \
         points. Oracle: an interpreter written from the module documentation alone (marker words, opcode numbers from \
         iter_ops(), byte 1 = output, bytes 2/3 = inputs, 0xFF = immediate taken from the second word, Mem with byte 2 = \
         0xFF loads and byte 1 = 0xFF stores, arithmetic from the independent reference semantics) must reproduce the VM \
         interpreter's outputs bit-for-bit; every register index < reg_count(), every memory index < mem_count(), no \
         operand that must be a register is 0xFF, len() even and equal to data().len(), as_bytes() little-endian. \
         Non-trivial = the tape has at least one memory op and at least one reg/imm or imm/reg instruction."
    }

    fn assumptions() -> Vec<&'static str> {
        vec!["tape_interpreter.wgsl (GPU consumer) is not executed on this host"]
    }
}
