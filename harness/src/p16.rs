//! C16 — standard shapes and transforms have their documented geometry
use crate::engine::*;
use crate::spec::*;
use crate::{ensure, fail};
use fidget_core::context::{Context, Tree};
use fidget_shapes::types::{Axis, Plane, Vec2, Vec3};
use fidget_shapes::*;
use proptest::collection::vec;
use proptest::prelude::*;
use serde::{Deserialize, Serialize};

/// Axis given by name or by a (non-normalised) vector
#[derive(Clone, Debug, Serialize, Deserialize)]
pub enum Ax {
    X,
    Y,
    Z,
    V([Fl; 3]),
}

#[derive(Clone, Debug, Serialize, Deserialize)]
pub enum Pl {
    XY,
    YZ,
    ZX,
    P(Ax, Fl),
}

#[derive(Clone, Debug, Serialize, Deserialize)]
pub enum S {
    Sphere { c: [Fl; 3], r: Fl },
    Box3 { lo: [Fl; 3], size: [Fl; 3] },
    Plane(Pl),
    Circle { c: [Fl; 2], r: Fl },
    Rect { lo: [Fl; 2], size: [Fl; 2] },
    Move(Bx<S>, [Fl; 3]),
    Scale(Bx<S>, [Fl; 3]),
    ScaleUniform(Bx<S>, Fl),
    Reflect(Bx<S>, Pl),
    ReflectX(Bx<S>, Fl),
    ReflectY(Bx<S>, Fl),
    ReflectZ(Bx<S>, Fl),
    ReflectXY(Bx<S>, Fl),
    RepeatX(Bx<S>, Fl, Fl),
    Rotate(Bx<S>, Ax, Fl, [Fl; 3]),
    RotateX(Bx<S>, Fl, [Fl; 3]),
    RotateY(Bx<S>, Fl, [Fl; 3]),
    RotateZ(Bx<S>, Fl, [Fl; 3]),
    RevolveY(Bx<S>, Fl),
    ExtrudeZ(Bx<S>, Fl, Fl),
    LoftZ(Bx<S>, Bx<S>, Fl, Fl),
    Union(Vec<S>),
    Blend(Bx<S>, Bx<S>, Fl),
    Intersection(Vec<S>),
    Difference(Bx<S>, Bx<S>),
    Inverse(Bx<S>),
}

#[derive(Clone, Debug, Serialize, Deserialize)]
pub struct Case {
    pub shape: S,
    pub points: Vec<[Fl; 3]>,
    /// build equal sub-shapes once and share the Tree between their occurrences
    #[serde(default)]
    pub share: bool,
}

pub struct P;

type Bx<T> = std::boxed::Box<T>;

fn v3(a: &[Fl; 3]) -> Vec3 {
    Vec3::new(a[0].0, a[1].0, a[2].0)
}

fn axis_of(a: &Ax) -> Option<Axis> {
    match a {
        Ax::X => Some(Axis::X),
        Ax::Y => Some(Axis::Y),
        Ax::Z => Some(Axis::Z),
        Ax::V(v) => Axis::try_from(v3(v)).ok(),
    }
}

/// An axis is documented as a vector of length 1
fn axis_is_unit(a: &Ax) -> Result<(), String> {
    if let Some(ax) = axis_of(a) {
        let v = ax.vec();
        let n = ((v.x as f64).powi(2) + (v.y as f64).powi(2) + (v.z as f64).powi(2)).sqrt();
        if (n - 1.0).abs() > 1e-6 {
            return Err(format!("Axis built from {a:?} has length {n}"));
        }
    }
    Ok(())
}

/// The unit vector an axis spec *names* (independent of the library)
fn axis_vec(a: &Ax) -> Option<[f64; 3]> {
    match a {
        Ax::X => Some([1.0, 0.0, 0.0]),
        Ax::Y => Some([0.0, 1.0, 0.0]),
        Ax::Z => Some([0.0, 0.0, 1.0]),
        Ax::V(v) => {
            let v = [v[0].0 as f64, v[1].0 as f64, v[2].0 as f64];
            let n = (v[0] * v[0] + v[1] * v[1] + v[2] * v[2]).sqrt();
            if n < 1e-3 {
                None
            } else {
                Some([v[0] / n, v[1] / n, v[2] / n])
            }
        }
    }
}

fn plane_of(p: &Pl) -> Option<Plane> {
    Some(match p {
        Pl::XY => Plane::XY,
        Pl::YZ => Plane::YZ,
        Pl::ZX => Plane::ZX,
        Pl::P(a, o) => Plane {
            axis: axis_of(a)?,
            offset: o.0,
        },
    })
}

/// (unit normal, offset) the plane spec names
fn plane_vec(p: &Pl) -> Option<([f64; 3], f64)> {
    Some(match p {
        Pl::XY => ([0.0, 0.0, 1.0], 0.0),
        Pl::YZ => ([1.0, 0.0, 0.0], 0.0),
        Pl::ZX => ([0.0, 1.0, 0.0], 0.0),
        Pl::P(a, o) => (axis_vec(a)?, o.0 as f64),
    })
}

thread_local! {
    /// when Some: equal sub-specs are built once and the same Tree (the same
    /// allocation) is used at every occurrence, as a user who clones a Tree does
    static SHARE: std::cell::RefCell<Option<Vec<(String, Tree)>>> = const { std::cell::RefCell::new(None) };
}

impl S {
    /// The library's tree for this spec
    fn tree(&self) -> Option<Tree> {
        let key = SHARE.with(|m| m.borrow().is_some()).then(|| serde_json::to_string(self).unwrap());
        if let Some(k) = &key {
            let hit = SHARE.with(|m| {
                m.borrow().as_ref().and_then(|v| v.iter().find(|(kk, _)| kk == k).map(|(_, t)| t.clone()))
            });
            if hit.is_some() {
                return hit;
            }
        }
        let t = self.tree_inner()?;
        if let Some(k) = key {
            SHARE.with(|m| {
                if let Some(v) = m.borrow_mut().as_mut() {
                    v.push((k, t.clone()));
                }
            });
        }
        Some(t)
    }

    fn tree_inner(&self) -> Option<Tree> {
        Some(match self {
            S::Sphere { c, r } => Sphere {
                center: v3(c),
                radius: r.0,
            }
            .into(),
            S::Box3 { lo, size } => fidget_shapes::Box {
                lower: v3(lo),
                upper: Vec3::new(lo[0].0 + size[0].0, lo[1].0 + size[1].0, lo[2].0 + size[2].0),
            }
            .into(),
            S::Plane(p) => plane_of(p)?.into(),
            S::Circle { c, r } => Circle {
                center: Vec2::new(c[0].0, c[1].0),
                radius: r.0,
            }
            .into(),
            S::Rect { lo, size } => Rectangle {
                lower: Vec2::new(lo[0].0, lo[1].0),
                upper: Vec2::new(lo[0].0 + size[0].0, lo[1].0 + size[1].0),
            }
            .into(),
            S::Move(s, o) => Move {
                shape: s.tree()?,
                offset: v3(o),
            }
            .into(),
            S::Scale(s, k) => Scale {
                shape: s.tree()?,
                scale: v3(k),
            }
            .into(),
            S::ScaleUniform(s, k) => ScaleUniform {
                shape: s.tree()?,
                scale: k.0,
            }
            .into(),
            S::Reflect(s, p) => Reflect {
                shape: s.tree()?,
                plane: plane_of(p)?,
            }
            .into(),
            S::ReflectX(s, o) => ReflectX {
                shape: s.tree()?,
                offset: o.0,
            }
            .into(),
            S::ReflectY(s, o) => ReflectY {
                shape: s.tree()?,
                offset: o.0,
            }
            .into(),
            S::ReflectZ(s, o) => ReflectZ {
                shape: s.tree()?,
                offset: o.0,
            }
            .into(),
            S::ReflectXY(s, o) => ReflectXY {
                shape: s.tree()?,
                offset: o.0,
            }
            .into(),
            S::RepeatX(s, r, o) => RepeatX {
                shape: s.tree()?,
                radius: r.0,
                offset: o.0,
            }
            .into(),
            S::Rotate(s, a, ang, c) => Rotate {
                shape: s.tree()?,
                axis: axis_of(a)?,
                angle: ang.0,
                center: v3(c),
            }
            .into(),
            S::RotateX(s, ang, c) => RotateX {
                shape: s.tree()?,
                angle: ang.0,
                center: v3(c),
            }
            .into(),
            S::RotateY(s, ang, c) => RotateY {
                shape: s.tree()?,
                angle: ang.0,
                center: v3(c),
            }
            .into(),
            S::RotateZ(s, ang, c) => RotateZ {
                shape: s.tree()?,
                angle: ang.0,
                center: v3(c),
            }
            .into(),
            S::RevolveY(s, o) => RevolveY {
                shape: s.tree()?,
                offset: o.0,
            }
            .into(),
            S::ExtrudeZ(s, lo, h) => ExtrudeZ {
                shape: s.tree()?,
                lower: lo.0,
                upper: lo.0 + h.0,
            }
            .into(),
            S::LoftZ(a, b, lo, h) => LoftZ {
                a: a.tree()?,
                b: b.tree()?,
                lower: lo.0,
                upper: lo.0 + h.0,
            }
            .into(),
            S::Union(v) => Union {
                input: v.iter().map(|s| s.tree()).collect::<Option<Vec<_>>>()?,
            }
            .into(),
            S::Blend(a, b, r) => Blend {
                a: a.tree()?,
                b: b.tree()?,
                radius: r.0,
            }
            .into(),
            S::Intersection(v) => Intersection {
                input: v.iter().map(|s| s.tree()).collect::<Option<Vec<_>>>()?,
            }
            .into(),
            S::Difference(a, b) => Difference {
                shape: a.tree()?,
                cutout: b.tree()?,
            }
            .into(),
            S::Inverse(a) => Inverse { shape: a.tree()? }.into(),
        })
    }

    fn name(&self) -> &'static str {
        match self {
            S::Sphere { .. } => "Sphere",
            S::Box3 { .. } => "Box",
            S::Plane(..) => "Plane",
            S::Circle { .. } => "Circle",
            S::Rect { .. } => "Rectangle",
            S::Move(..) => "Move",
            S::Scale(..) => "Scale",
            S::ScaleUniform(..) => "ScaleUniform",
            S::Reflect(..) => "Reflect",
            S::ReflectX(..) => "ReflectX",
            S::ReflectY(..) => "ReflectY",
            S::ReflectZ(..) => "ReflectZ",
            S::ReflectXY(..) => "ReflectXY",
            S::RepeatX(..) => "RepeatX",
            S::Rotate(..) => "Rotate",
            S::RotateX(..) => "RotateX",
            S::RotateY(..) => "RotateY",
            S::RotateZ(..) => "RotateZ",
            S::RevolveY(..) => "RevolveY",
            S::ExtrudeZ(..) => "ExtrudeZ",
            S::LoftZ(..) => "LoftZ",
            S::Union(..) => "Union",
            S::Blend(..) => "Blend",
            S::Intersection(..) => "Intersection",
            S::Difference(..) => "Difference",
            S::Inverse(..) => "Inverse",
        }
    }

    /// Lipschitz bound of the library field (how much a position error is
    /// amplified), from the scale factors below this node
    fn lip(&self) -> f64 {
        match self {
            S::Sphere { .. } | S::Box3 { .. } | S::Plane(..) | S::Circle { .. } | S::Rect { .. } => 1.0,
            S::Move(s, _)
            | S::Reflect(s, _)
            | S::ReflectX(s, _)
            | S::ReflectY(s, _)
            | S::ReflectZ(s, _)
            | S::ReflectXY(s, _)
            | S::RepeatX(s, _, _)
            | S::Rotate(s, _, _, _)
            | S::RotateX(s, _, _)
            | S::RotateY(s, _, _)
            | S::RotateZ(s, _, _)
            | S::RevolveY(s, _)
            | S::ExtrudeZ(s, _, _)
            | S::Inverse(s) => s.lip(),
            S::Scale(s, k) => {
                s.lip() / k.iter().map(|f| f.0.abs() as f64).fold(f64::INFINITY, f64::min)
            }
            S::ScaleUniform(s, k) => s.lip() / k.0.abs() as f64,
            S::LoftZ(a, b, _, h) => {
                // (z - lo) * b + (hi - z) * a over h: also varies with z
                2.0 * (a.lip() + b.lip()) + 20.0 / h.0.abs().max(1e-3) as f64
            }
            S::Union(v) | S::Intersection(v) => v.iter().map(|s| s.lip()).fold(1.0, f64::max),
            S::Blend(a, b, _) | S::Difference(a, b) => 2.0 * a.lip().max(b.lip()),
        }
    }
}

fn dot(a: [f64; 3], b: [f64; 3]) -> f64 {
    a[0] * b[0] + a[1] * b[1] + a[2] * b[2]
}

fn reflect(p: [f64; 3], n: [f64; 3], off: f64) -> [f64; 3] {
    let d = dot(p, n) - off;
    [p[0] - 2.0 * d * n[0], p[1] - 2.0 * d * n[1], p[2] - 2.0 * d * n[2]]
}

/// Rotation of `p` by `deg` degrees about the axis `a` through `c`
/// (right-handed, Rodrigues)
fn rotate(p: [f64; 3], a: [f64; 3], deg: f64, c: [f64; 3]) -> [f64; 3] {
    let t = deg.to_radians();
    let v = [p[0] - c[0], p[1] - c[1], p[2] - c[2]];
    let (s, co) = t.sin_cos();
    let cross = [
        a[1] * v[2] - a[2] * v[1],
        a[2] * v[0] - a[0] * v[2],
        a[0] * v[1] - a[1] * v[0],
    ];
    let d = dot(a, v);
    let mut o = [0.0; 3];
    for i in 0..3 {
        o[i] = v[i] * co + cross[i] * s + a[i] * d * (1.0 - co) + c[i];
    }
    o
}

struct World {
    ctx: Context,
    share: bool,
}

impl World {
    fn lib(&mut self, s: &S, p: [f64; 3]) -> Option<f64> {
        SHARE.with(|m| *m.borrow_mut() = self.share.then(Vec::new));
        let t = s.tree();
        SHARE.with(|m| *m.borrow_mut() = None);
        let t = t?;
        let n = self.ctx.import(&t);
        Some(self.ctx.eval_xyz(n, p[0] as f32, p[1] as f32, p[2] as f32).unwrap() as f64)
    }
}

fn fa(a: &[Fl; 3]) -> [f64; 3] {
    [a[0].0 as f64, a[1].0 as f64, a[2].0 as f64]
}

/// Checks the documented geometry of the *outermost* node of `s` at `p`, then
/// recurses into its children at the mapped points
fn check_node(w: &mut World, s: &S, p: [f64; 3], cx: &mut Cx, depth: usize) -> CheckResult {
    let Some(got) = w.lib(s, p) else {
        cx.ev.count("skipped_axis_rejected_by_constructor");
        return Ok(());
    };
    match s {
        S::Rotate(_, a, _, _) | S::Plane(Pl::P(a, _)) | S::Reflect(_, Pl::P(a, _)) => {
            if let Err(e) = axis_is_unit(a) {
                fail!("axis-not-unit", "{e}");
            }
            cx.ev.count("axes_checked_unit_length");
        }
        _ => {}
    }
    let pm = p.iter().map(|v| v.abs()).fold(0.0, f64::max);
    let name = s.name();
    cx.ev.count(&format!("checked_{name}"));
    let tol = |scale: f64, lip: f64| 2e-4 * (1.0 + pm + scale) * lip.max(1.0);
    // T(s)(p) == s(q)
    let relate = |w: &mut World, inner: &S, q: [f64; 3], scale: f64, cx: &mut Cx| -> CheckResult {
        let Some(want) = w.lib(inner, q) else { return Ok(()) };
        let t = tol(scale, inner.lip());
        if !(got.is_finite() && want.is_finite()) {
            return Ok(());
        }
        if (got - want).abs() > t {
            // a discontinuity of the inner shape (the seam of a RepeatX) next
            // to the mapped point makes the comparison meaningless
            let d = 1e-4 * (1.0 + pm + scale);
            for k in 0..3 {
                for sg in [-1.0, 1.0] {
                    let mut q2 = q;
                    q2[k] += sg * d;
                    if let Some(w2) = w.lib(inner, q2) {
                        if (w2 - want).abs() > 3.0 * d * inner.lip().max(1.0) {
                            cx.ev.count("transform_points_next_to_a_discontinuity_of_the_inner_shape");
                            return Ok(());
                        }
                    }
                }
            }
            fail!(
                format!("geometry-{name}"),
                "{name}: value at {:?} is {got}, but the inner shape at the mapped point {:?} is {want} (tol {t:e}); spec {:?}",
                p,
                q,
                s
            );
        }
        check_node(w, inner, q, cx, depth + 1)
    };
    // sign of a primitive
    let prim = |inside: bool, margin: f64, cx: &mut Cx| -> CheckResult {
        if margin.abs() < 1e-4 * (1.0 + pm) {
            cx.ev.count("primitive_points_too_close_to_boundary");
            return Ok(());
        }
        if (got < 0.0) != inside {
            fail!(
                format!("geometry-{name}"),
                "{name}: value {got} at {:?}, but the point is {} the solid; spec {:?}",
                p,
                if inside { "inside" } else { "outside" },
                s
            );
        }
        Ok(())
    };
    match s {
        S::Sphere { c, r } => {
            let c = fa(c);
            let d = ((p[0] - c[0]).powi(2) + (p[1] - c[1]).powi(2) + (p[2] - c[2]).powi(2)).sqrt();
            prim(d < r.0 as f64, d - r.0 as f64, cx)
        }
        S::Circle { c, r } => {
            let d = ((p[0] - c[0].0 as f64).powi(2) + (p[1] - c[1].0 as f64).powi(2)).sqrt();
            prim(d < r.0 as f64, d - r.0 as f64, cx)
        }
        S::Box3 { lo, size } => {
            let mut m = f64::NEG_INFINITY;
            for i in 0..3 {
                let (l, u) = (lo[i].0 as f64, (lo[i].0 + size[i].0) as f64);
                m = m.max(l - p[i]).max(p[i] - u);
            }
            prim(m < 0.0, m, cx)
        }
        S::Rect { lo, size } => {
            let mut m = f64::NEG_INFINITY;
            for i in 0..2 {
                let (l, u) = (lo[i].0 as f64, (lo[i].0 + size[i].0) as f64);
                m = m.max(l - p[i]).max(p[i] - u);
            }
            prim(m < 0.0, m, cx)
        }
        S::Plane(pl) => {
            let Some((n, o)) = plane_vec(pl) else { return Ok(()) };
            let d = dot(p, n) - o;
            // the half-space below the plane is the solid
            prim(d < 0.0, d, cx)
        }
        S::Move(i, o) => {
            let o = fa(o);
            relate(w, i, [p[0] - o[0], p[1] - o[1], p[2] - o[2]], o.iter().map(|v| v.abs()).fold(0.0, f64::max), cx)
        }
        S::Scale(i, k) => {
            let k = fa(k);
            relate(w, i, [p[0] / k[0], p[1] / k[1], p[2] / k[2]], 0.0, cx)
        }
        S::ScaleUniform(i, k) => {
            let k = k.0 as f64;
            relate(w, i, [p[0] / k, p[1] / k, p[2] / k], 0.0, cx)
        }
        S::Reflect(i, pl) => {
            let Some((n, o)) = plane_vec(pl) else { return Ok(()) };
            relate(w, i, reflect(p, n, o), o.abs(), cx)
        }
        S::ReflectX(i, o) => relate(w, i, reflect(p, [1.0, 0.0, 0.0], o.0 as f64), o.0.abs() as f64, cx),
        S::ReflectY(i, o) => relate(w, i, reflect(p, [0.0, 1.0, 0.0], o.0 as f64), o.0.abs() as f64, cx),
        S::ReflectZ(i, o) => relate(w, i, reflect(p, [0.0, 0.0, 1.0], o.0 as f64), o.0.abs() as f64, cx),
        S::ReflectXY(i, o) => {
            // reflection about the line x = y (plane through it containing z),
            // displaced by `offset` along its normal (-1, 1, 0)/sqrt 2
            let h = std::f64::consts::FRAC_1_SQRT_2;
            relate(w, i, reflect(p, [-h, h, 0.0], o.0 as f64), o.0.abs() as f64, cx)
        }
        S::RepeatX(i, r, o) => {
            let (r, o) = (r.0 as f64, o.0 as f64);
            if r <= 0.0 {
                return Ok(());
            }
            // period 2r, the copy centred at `offset` is the original
            let u = (p[0] - (o - r)).rem_euclid(2.0 * r);
            if u < 1e-3 * (1.0 + pm) || 2.0 * r - u < 1e-3 * (1.0 + pm) {
                cx.ev.count("repeat_points_near_seam");
                return Ok(());
            }
            relate(w, i, [u + (o - r), p[1], p[2]], r + o.abs(), cx)
        }
        S::Rotate(i, a, ang, c) => {
            let Some(a) = axis_vec(a) else { return Ok(()) };
            relate(w, i, rotate(p, a, -(ang.0 as f64), fa(c)), fa(c).iter().map(|v| v.abs()).fold(0.0, f64::max), cx)
        }
        S::RotateX(i, ang, c) => relate(w, i, rotate(p, [1.0, 0.0, 0.0], -(ang.0 as f64), fa(c)), fa(c).iter().map(|v| v.abs()).fold(0.0, f64::max), cx),
        S::RotateY(i, ang, c) => relate(w, i, rotate(p, [0.0, 1.0, 0.0], -(ang.0 as f64), fa(c)), fa(c).iter().map(|v| v.abs()).fold(0.0, f64::max), cx),
        S::RotateZ(i, ang, c) => relate(w, i, rotate(p, [0.0, 0.0, 1.0], -(ang.0 as f64), fa(c)), fa(c).iter().map(|v| v.abs()).fold(0.0, f64::max), cx),
        S::RevolveY(i, o) => {
            // a point is in the solid of revolution iff its (radius about the
            // vertical axis, height) is in the 2D profile.  The documentation
            // ("X offset about which to revolve") does not fix the sign
            // convention of the axis position, so the axis may be the line
            // x = offset or x = -offset (the profile is not moved)
            let o = o.0 as f64;
            let mut ok = false;
            let mut last = Ok(());
            for a in [o, -o] {
                let r = ((p[0] - a).powi(2) + p[2].powi(2)).sqrt();
                let q = [a + r, p[1], 0.0];
                last = relate(w, i, q, o.abs(), cx);
                if last.is_ok() {
                    ok = true;
                    break;
                }
            }
            if ok { Ok(()) } else { last }
        }
        S::ExtrudeZ(i, lo, h) => {
            let (lo, hi) = (lo.0 as f64, (lo.0 + h.0) as f64);
            let Some(prof) = w.lib(i, [p[0], p[1], 0.0]) else { return Ok(()) };
            let slab = (lo - p[2]).max(p[2] - hi);
            if prof.abs() < 1e-3 * (1.0 + pm) || slab.abs() < 1e-3 * (1.0 + pm) {
                return Ok(());
            }
            let inside = prof < 0.0 && slab < 0.0;
            ensure!(
                (got < 0.0) == inside,
                format!("geometry-{name}"),
                "ExtrudeZ: value {got} at {:?}; profile {prof}, slab {slab}; spec {:?}",
                p,
                s
            );
            check_node(w, i, [p[0], p[1], 0.0], cx, depth + 1)
        }
        S::LoftZ(a, b, lo, h) => {
            let (lo, hi) = (lo.0 as f64, (lo.0 + h.0) as f64);
            let (Some(va), Some(vb)) = (w.lib(a, [p[0], p[1], 0.0]), w.lib(b, [p[0], p[1], 0.0])) else {
                return Ok(());
            };
            let t = ((p[2] - lo) * vb + (hi - p[2]) * va) / (hi - lo);
            let slab = (lo - p[2]).max(p[2] - hi);
            if t.abs() < 1e-3 * (1.0 + pm + va.abs() + vb.abs()) || slab.abs() < 1e-3 * (1.0 + pm) {
                return Ok(());
            }
            ensure!(
                (got < 0.0) == (t < 0.0 && slab < 0.0),
                format!("geometry-{name}"),
                "LoftZ: value {got} at {:?}; interpolated profile {t}, slab {slab}",
                p
            );
            Ok(())
        }
        S::Union(v) | S::Intersection(v) => {
            let mut vals = vec![];
            for i in v {
                match w.lib(i, p) {
                    Some(x) => vals.push(x),
                    None => return Ok(()),
                }
            }
            if vals.iter().any(|x| x.abs() < 1e-4 * (1.0 + pm) || !x.is_finite()) {
                return Ok(());
            }
            let inside = if matches!(s, S::Union(..)) {
                vals.iter().any(|x| *x < 0.0)
            } else {
                vals.iter().all(|x| *x < 0.0)
            };
            ensure!(
                (got < 0.0) == inside,
                format!("geometry-{name}"),
                "{name} of {} shapes with values {:?} has value {got} at {:?}",
                v.len(),
                vals,
                p
            );
            for i in v {
                check_node(w, i, p, cx, depth + 1)?;
            }
            Ok(())
        }
        S::Difference(a, b) => {
            let (Some(va), Some(vb)) = (w.lib(a, p), w.lib(b, p)) else { return Ok(()) };
            if va.abs() < 1e-4 * (1.0 + pm) || vb.abs() < 1e-4 * (1.0 + pm) {
                return Ok(());
            }
            ensure!(
                (got < 0.0) == (va < 0.0 && !(vb < 0.0)),
                format!("geometry-{name}"),
                "Difference: shape {va}, cutout {vb}, result {got} at {:?}",
                p
            );
            check_node(w, a, p, cx, depth + 1)?;
            check_node(w, b, p, cx, depth + 1)
        }
        S::Inverse(a) => {
            let Some(va) = w.lib(a, p) else { return Ok(()) };
            if va.abs() < 1e-4 * (1.0 + pm) {
                return Ok(());
            }
            ensure!(
                (got < 0.0) == !(va < 0.0),
                format!("geometry-{name}"),
                "Inverse: shape {va}, result {got} at {:?}",
                p
            );
            check_node(w, a, p, cx, depth + 1)
        }
        S::Blend(a, b, r) => {
            let (Some(va), Some(vb)) = (w.lib(a, p), w.lib(b, p)) else { return Ok(()) };
            let r = r.0 as f64;
            // a smooth union: never above the hard union, equal to it when the
            // two fields differ by at least the radius, and (documented
            // formula) min - (r - |a-b|)^2 / 4r inside the blending band
            let m = va.min(vb);
            let want = if r > 0.0 {
                m - (r - (va - vb).abs()).max(0.0).powi(2) / (4.0 * r)
            } else {
                m
            };
            let t = 1e-4 * (1.0 + pm + va.abs() + vb.abs());
            if !(va.is_finite() && vb.is_finite()) {
                return Ok(());
            }
            ensure!(
                (got - want).abs() <= t,
                format!("geometry-{name}"),
                "Blend radius {r}: fields {va}, {vb}: value {got}, documented formula {want}"
            );
            Ok(())
        }
    }
}

fn coord() -> BoxedStrategy<Fl> {
    prop_oneof![
        4 => (-200i32..=200).prop_map(|i| Fl(i as f32 / 100.0)),
        1 => Just(Fl(0.0)),
        1 => (-8i32..=8).prop_map(|i| Fl(i as f32 / 2.0)),
    ]
    .boxed()
}
fn size() -> BoxedStrategy<Fl> {
    (5i32..=200).prop_map(|i| Fl(i as f32 / 100.0)).boxed()
}
fn factor() -> BoxedStrategy<Fl> {
    prop_oneof![
        3 => (30i32..=300).prop_map(|i| Fl(i as f32 / 100.0)),
        2 => (30i32..=300).prop_map(|i| Fl(-i as f32 / 100.0)),
    ]
    .boxed()
}
fn angle() -> BoxedStrategy<Fl> {
    prop_oneof![
        4 => (-7200i32..=7200).prop_map(|i| Fl(i as f32 / 10.0)),
        2 => prop_oneof![Just(90.0f32), Just(-90.0), Just(180.0), Just(270.0), Just(360.0), Just(45.0), Just(0.0)].prop_map(Fl),
    ]
    .boxed()
}
fn ax() -> BoxedStrategy<Ax> {
    prop_oneof![
        1 => Just(Ax::X),
        1 => Just(Ax::Y),
        1 => Just(Ax::Z),
        3 => [coord(), coord(), coord()].prop_map(Ax::V),
        // vectors whose length is within a few parts in 10^4 of 1 (hand-typed
        // unit vectors such as (0.6, 0.8, 0.03)): the library must still
        // normalise them
        1 => ([coord(), coord(), coord()], -12i32..=12).prop_map(|(v, k)| {
            let (x, y, z) = (v[0].0, v[1].0, v[2].0);
            let n = (x * x + y * y + z * z).sqrt();
            if n < 1e-3 {
                Ax::V([Fl(1.0 + k as f32 * 1e-4), Fl(0.0), Fl(0.0)])
            } else {
                let s = (1.0 + k as f32 * 1e-4) / n;
                Ax::V([Fl(x * s), Fl(y * s), Fl(z * s)])
            }
        }),
    ]
    .boxed()
}
fn pl() -> BoxedStrategy<Pl> {
    prop_oneof![
        1 => Just(Pl::XY),
        1 => Just(Pl::YZ),
        1 => Just(Pl::ZX),
        3 => (ax(), coord()).prop_map(|(a, o)| Pl::P(a, o)),
    ]
    .boxed()
}
fn c3() -> [BoxedStrategy<Fl>; 3] {
    [coord(), coord(), coord()]
}

fn prim3() -> BoxedStrategy<S> {
    prop_oneof![
        3 => (c3(), size()).prop_map(|(c, r)| S::Sphere { c, r }),
        3 => (c3(), [size(), size(), size()]).prop_map(|(lo, size)| S::Box3 { lo, size }),
        2 => pl().prop_map(S::Plane),
    ]
    .boxed()
}
fn prim2() -> BoxedStrategy<S> {
    prop_oneof![
        1 => ([coord(), coord()], size()).prop_map(|(c, r)| S::Circle { c, r }),
        1 => ([coord(), coord()], [size(), size()]).prop_map(|(lo, size)| S::Rect { lo, size }),
    ]
    .boxed()
}

fn shape(depth: u32) -> BoxedStrategy<S> {
    let leaf = prop_oneof![3 => prim3(), 2 => prim2()];
    leaf.prop_recursive(depth, 12, 3, |inner| {
        let b = |s: BoxedStrategy<S>| s.prop_map(std::boxed::Box::new);
        let i = inner.clone().boxed();
        prop_oneof![
            2 => (b(i.clone()), c3()).prop_map(|(s, o)| S::Move(s, o)),
            2 => (b(i.clone()), [factor(), factor(), factor()]).prop_map(|(s, k)| S::Scale(s, k)),
            1 => (b(i.clone()), factor()).prop_map(|(s, k)| S::ScaleUniform(s, k)),
            2 => (b(i.clone()), pl()).prop_map(|(s, p)| S::Reflect(s, p)),
            1 => (b(i.clone()), coord()).prop_map(|(s, o)| S::ReflectX(s, o)),
            1 => (b(i.clone()), coord()).prop_map(|(s, o)| S::ReflectY(s, o)),
            1 => (b(i.clone()), coord()).prop_map(|(s, o)| S::ReflectZ(s, o)),
            1 => (b(i.clone()), coord()).prop_map(|(s, o)| S::ReflectXY(s, o)),
            1 => (b(i.clone()), size(), coord()).prop_map(|(s, r, o)| S::RepeatX(s, r, o)),
            3 => (b(i.clone()), ax(), angle(), c3()).prop_map(|(s, a, g, c)| S::Rotate(s, a, g, c)),
            1 => (b(i.clone()), angle(), c3()).prop_map(|(s, g, c)| S::RotateX(s, g, c)),
            1 => (b(i.clone()), angle(), c3()).prop_map(|(s, g, c)| S::RotateY(s, g, c)),
            1 => (b(i.clone()), angle(), c3()).prop_map(|(s, g, c)| S::RotateZ(s, g, c)),
            1 => (b(prim2()), coord()).prop_map(|(s, o)| S::RevolveY(s, o)),
            1 => (b(prim2()), coord(), size()).prop_map(|(s, lo, h)| S::ExtrudeZ(s, lo, h)),
            1 => (b(prim2()), b(prim2()), coord(), size()).prop_map(|(a, bb, lo, h)| S::LoftZ(a, bb, lo, h)),
            2 => vec(i.clone(), 0..=4).prop_map(S::Union),
            2 => vec(i.clone(), 0..=4).prop_map(S::Intersection),
            1 => (
                b(i.clone()),
                b(i.clone()),
                // also the boundary of the formula's domain: a radius of +-0 or
                // below is a plain union
                prop_oneof![8 => size(), 1 => Just(Fl(0.0)), 1 => Just(Fl(-0.0)), 1 => size().prop_map(|f| Fl(-f.0))],
            )
                .prop_map(|(a, bb, r)| S::Blend(a, bb, r)),
            2 => (b(i.clone()), b(i.clone())).prop_map(|(a, bb)| S::Difference(a, bb)),
            1 => b(i.clone()).prop_map(S::Inverse),
            // one shape used twice, plain and under a transform, in either
            // order (with Case::share the two uses are one Tree allocation)
            3 => (i.clone(), c3(), 0u8..6, 0u8..5).prop_map(|(s, o, wrap, comb)| {
                let bx = |s: &S| std::boxed::Box::new(s.clone());
                let t = match wrap {
                    0 => S::Move(bx(&s), o),
                    1 => S::ReflectX(bx(&s), o[0]),
                    2 => S::RotateZ(bx(&s), Fl(90.0), o),
                    3 => S::ScaleUniform(bx(&s), Fl(2.0)),
                    4 => S::Move(std::boxed::Box::new(S::ReflectY(bx(&s), o[1])), o),
                    _ => S::Inverse(bx(&s)),
                };
                match comb {
                    0 => S::Union(vec![s, t]),
                    1 => S::Union(vec![t, s]),
                    2 => S::Difference(std::boxed::Box::new(s), std::boxed::Box::new(t)),
                    3 => S::Difference(std::boxed::Box::new(t), std::boxed::Box::new(s)),
                    _ => S::Intersection(vec![s.clone(), t, s]),
                }
            }),
        ]
    })
    .boxed()
}

impl Prop for P {
    const ID: &'static str = "C16";
    type Case = Case;

    fn strategy(tier: Tier) -> BoxedStrategy<Case> {
        (shape(tier.pick(3, 4)), vec([coord(), coord(), coord()], 1..=8), any::<bool>())
            .prop_map(|(shape, points, share)| Case { shape, points, share })
            .boxed()
    }

    fn fixed_cases(_tier: Tier) -> Vec<Case> {
        // named axes and planes
        let pts: Vec<[Fl; 3]> = vec![
            [Fl(0.3), Fl(-0.7), Fl(1.1)],
            [Fl(-1.3), Fl(0.2), Fl(-0.4)],
            [Fl(0.0), Fl(0.0), Fl(0.5)],
            [Fl(0.0), Fl(0.5), Fl(0.0)],
            [Fl(0.5), Fl(0.0), Fl(0.0)],
        ];
        let mut v = vec![];
        for p in [Pl::XY, Pl::YZ, Pl::ZX] {
            v.push(Case {
                shape: S::Plane(p.clone()),
                points: pts.clone(),
                share: false,
            });
            v.push(Case {
                shape: S::Reflect(
                    std::boxed::Box::new(S::Sphere {
                        c: [Fl(0.3), Fl(0.5), Fl(0.7)],
                        r: Fl(0.4),
                    }),
                    p,
                ),
                points: pts.clone(),
                share: false,
            });
        }
        for a in [Ax::X, Ax::Y, Ax::Z] {
            v.push(Case {
                shape: S::Rotate(
                    std::boxed::Box::new(S::Box3 {
                        lo: [Fl(0.1), Fl(0.2), Fl(0.3)],
                        size: [Fl(0.5), Fl(0.3), Fl(0.2)],
                    }),
                    a,
                    Fl(90.0),
                    [Fl(0.0), Fl(0.0), Fl(0.0)],
                ),
                points: pts.clone(),
                share: false,
            });
        }
        v
    }

    fn check(case: &Case, cx: &mut Cx) -> CheckResult {
        // named constants denote what their names say
        let ux = Axis::X.vec();
        let uy = Axis::Y.vec();
        let uz = Axis::Z.vec();
        ensure!(
            (ux.x, ux.y, ux.z) == (1.0, 0.0, 0.0)
                && (uy.x, uy.y, uy.z) == (0.0, 1.0, 0.0)
                && (uz.x, uz.y, uz.z) == (0.0, 0.0, 1.0),
            "named-axis",
            "Axis::X/Y/Z are {ux:?} {uy:?} {uz:?}"
        );
        for (p, n, name) in [
            (Plane::XY, [0.0, 0.0, 1.0], "XY"),
            (Plane::YZ, [1.0, 0.0, 0.0], "YZ"),
            (Plane::ZX, [0.0, 1.0, 0.0], "ZX"),
        ] {
            let a = p.axis.vec();
            ensure!(
                [a.x, a.y, a.z] == n && p.offset == 0.0,
                "named-plane",
                "Plane::{name} has normal {a:?} offset {}",
                p.offset
            );
        }
        let mut w = World { ctx: Context::new(), share: case.share };
        if case.share {
            cx.ev.count("cases_with_shared_subtrees");
        }
        for p in &case.points {
            check_node(&mut w, &case.shape, fa(p), cx, 0)?;
        }
        fn depth(s: &S) -> usize {
            match s {
                S::Move(i, _) | S::Scale(i, _) | S::ScaleUniform(i, _) | S::Reflect(i, _) | S::ReflectX(i, _)
                | S::ReflectY(i, _) | S::ReflectZ(i, _) | S::ReflectXY(i, _) | S::RepeatX(i, _, _)
                | S::Rotate(i, _, _, _) | S::RotateX(i, _, _) | S::RotateY(i, _, _) | S::RotateZ(i, _, _)
                | S::RevolveY(i, _) | S::ExtrudeZ(i, _, _) | S::Inverse(i) => 1 + depth(i),
                S::LoftZ(a, b, _, _) | S::Blend(a, b, _) | S::Difference(a, b) => 1 + depth(a).max(depth(b)),
                S::Union(v) | S::Intersection(v) => 1 + v.iter().map(depth).max().unwrap_or(0),
                _ => 0,
            }
        }
        if depth(&case.shape) >= 2 {
            cx.ev.nontrivial(case);
        }
        Ok(())
    }

    fn plan(tier: Tier) -> Plan {
        match tier {
            Tier::Quick => Plan {
                workers: 16,
                cases_per_worker: 15000,
                timeout_s: 1800,
                max_shrink_iters: 3000,
            },
            Tier::Thorough => Plan {
                workers: 16,
                cases_per_worker: 600000,
                timeout_s: 14400,
                max_shrink_iters: 3000,
            },
        }
    }

    fn rule() -> &'static str {
        "generated nests (depth <= 3, thorough 4) of the 26 library structs with generated parameters: centres / corners / \
         offsets in [-2, 2] or on a half-integer grid, sizes 0.05-2, scale factors +-0.3..3 (negative and non-uniform), \
         angles in [-720, 720] degrees plus exact 0/45/90/180/270/360, axes named or from random vectors, planes named \
         or generic, repeat periods; 1-8 sample points. Oracle per node: primitives - the sign of the value equals the \
         closed-form inside test of the named solid (points within 1e-4 of the boundary skipped); transforms - T(s)(p) \
         equals the library's value of s at the independently computed T^-1 p (move: p - offset; scale: p / factors; \
         rotate: Rodrigues rotation by -angle about the axis through the centre; reflect: mirror image; repeat: wrap into \
         the period centred at the offset; revolve: (radius about the line x = offset, height)), tolerance 2e-4 x size x \
         Lipschitz bound; CSG - inside exactly per union / intersection / difference / complement of the arguments' own \
         signs; Blend - the documented smooth-min formula; extrude / loft - profile and slab; named axes and planes - the \
         unit vectors and normals their names say (fixed cases). Non-trivial = nesting depth >= 2."
    }
}
