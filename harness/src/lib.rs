//! Harness library: shared by the `fv` binary and the libFuzzer target in fuzz/
#![allow(dead_code)]
pub mod build;
pub mod engine;
pub mod gens;
pub mod galloc;
pub mod guard;
pub mod refsem;
pub mod spec;

pub mod p01;
pub mod p02;
pub mod p03;
pub mod p04;
pub mod p05;
pub mod p06;
pub mod p07;
pub mod p08;
pub mod p09;
pub mod p10;
pub mod p11;
pub mod p12;
pub mod p13;
pub mod p14;
pub mod p15;
pub mod p16;
pub mod p17;
pub mod p18;
pub mod p19;
pub mod p20;
pub mod csg;

pub mod fuzzing;
