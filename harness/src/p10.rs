//! C10 — reusing evaluators, tapes' storage and workspaces never changes results
use crate::build::*;
use crate::engine::*;
use crate::gens;
use crate::spec::*;
use crate::{ensure, fail};
use fidget_core::context::Node;
use fidget_core::eval::{BulkEvaluator, Function, MathFunction, Tape, TracingEvaluator};
use fidget_core::render::RenderHandle;
use fidget_core::shape::{Shape, ShapeVars};
use fidget_core::types::{Grad, Interval};
use fidget_core::vm::{VmFunction, VmTrace};
use fidget_jit::JitFunction;
use proptest::collection::vec;
use proptest::prelude::*;
use serde::{Deserialize, Serialize};

#[derive(Clone, Debug, Serialize, Deserialize)]
pub enum Op {
    /// kind: 0 point, 1 interval, 2 float slice, 3 grad slice
    Eval { f: u16, kind: u8, inp: u16, n: u8 },
    Simplify { f: u16, interval: bool, inp: u16 },
    RecycleFn { f: u16 },
    /// RenderHandle: interval eval on inputs -> simplify (cached) -> float
    /// slice eval, for each input in turn; then recycle everything
    Handle { f: u16, inps: Vec<u16> },
    /// Shape-level evaluators (their own scratch columns on top of the inner
    /// evaluator), long-lived across the history: batch of `n` samples of
    /// function `f` with its free variables bound through ShapeVars.
    /// kind: 0 point, 1 interval, 2 float slice, 3 grad slice
    ShapeEval { f: u16, kind: u8, inp: u16, n: u8 },
}

#[derive(Clone, Debug, Serialize, Deserialize)]
pub struct Case {
    pub fns: Vec<(DagSpec, Vec<u16>)>,
    pub inputs: Vec<Vec<Fl>>,
    pub ops: Vec<Op>,
    pub jit: bool,
    /// interpreter with a small register budget (0 = the default 255): nearly
    /// every tape spills, so allocator state kept in a reused workspace matters
    #[serde(default)]
    pub small: u8,
}

pub struct P;

struct Live<F> {
    f: Option<F>,
    spec: usize,
    chain: Vec<(bool, usize)>,
}

fn nb(v: f32) -> u32 {
    if v.is_nan() { 0x7fc00000 } else { v.to_bits() }
}

fn order_of<F: Function>(f: &F, b: &Built) -> Vec<usize> {
    let vm = f.vars();
    let mut order = vec![0usize; vm.len()];
    for (i, v) in b.vars.iter().enumerate() {
        if let Some(s) = vm.get(v) {
            order[s] = i;
        }
    }
    order
}

fn interval_of(v: f32) -> Interval {
    if v.is_finite() && v.abs() < 1e30 {
        Interval::new(v - 0.5, v + 0.5)
    } else {
        Interval::from(v)
    }
}

/// Result of one evaluation as comparable words, plus the trace
type Obs = (Vec<u32>, Option<Vec<u8>>);

struct Evals<F: Function> {
    pe: F::PointEval,
    ie: F::IntervalEval,
    fe: F::FloatSliceEval,
    ge: F::GradSliceEval,
}

impl<F: Function> Evals<F> {
    fn new() -> Self {
        Evals {
            pe: F::new_point_eval(),
            ie: F::new_interval_eval(),
            fe: F::new_float_slice_eval(),
            ge: F::new_grad_slice_eval(),
        }
    }
}

/// Evaluates `f` with `kind` on inputs starting at `inp` (n samples for the
/// bulk kinds), taking tape storage from `tstore` (and returning it there)
fn eval_kind<F: Function<Trace = VmTrace>>(
    f: &F,
    b: &Built,
    ev: &mut Evals<F>,
    tstore: &mut Vec<F::TapeStorage>,
    kind: u8,
    inputs: &[Vec<Fl>],
    inp: usize,
    n: usize,
) -> Result<(Obs, Option<VmTrace>), Fail> {
    let order = order_of(f, b);
    let row = |k: usize| -> Vec<f32> {
        let p = &inputs[(inp + k) % inputs.len()];
        order.iter().map(|o| p[*o].0).collect()
    };
    let err = |e: String| Fail::new("eval-error", e);
    match kind % 4 {
        0 => {
            let tape = f.point_tape(tstore.pop().unwrap_or_default());
            let (o, t) = ev.pe.eval(&tape, &row(0)).map_err(|e| err(format!("{e:?}")))?;
            let words = o.iter().map(|v| nb(*v)).collect();
            let tr = t.cloned();
            let tb = tr.as_ref().map(|t| t.as_slice().iter().map(|c| *c as u8).collect());
            tstore.extend(tape.recycle());
            Ok(((words, tb), tr))
        }
        1 => {
            let tape = f.interval_tape(tstore.pop().unwrap_or_default());
            let iv: Vec<Interval> = row(0).iter().map(|v| interval_of(*v)).collect();
            let (o, t) = ev.ie.eval(&tape, &iv).map_err(|e| err(format!("{e:?}")))?;
            let words = o.iter().flat_map(|v| [nb(v.lower()), nb(v.upper())]).collect();
            let tr = t.cloned();
            let tb = tr.as_ref().map(|t| t.as_slice().iter().map(|c| *c as u8).collect());
            tstore.extend(tape.recycle());
            Ok(((words, tb), tr))
        }
        2 => {
            let tape = f.float_slice_tape(tstore.pop().unwrap_or_default());
            let rows: Vec<Vec<f32>> = (0..n).map(row).collect();
            let cols: Vec<Vec<f32>> = (0..order.len())
                .map(|c| rows.iter().map(|r| r[c]).collect())
                .collect();
            let o = ev.fe.eval(&tape, &cols).map_err(|e| err(format!("{e:?}")))?;
            let mut words = vec![o.len() as u32];
            if !cols.is_empty() {
                for k in 0..o.len() {
                    words.push(o[k].len() as u32);
                    words.extend(o[k].iter().map(|v| nb(*v)));
                }
            }
            tstore.extend(tape.recycle());
            Ok(((words, None), None))
        }
        _ => {
            let tape = f.grad_slice_tape(tstore.pop().unwrap_or_default());
            let rows: Vec<Vec<f32>> = (0..n).map(row).collect();
            let cols: Vec<Vec<Grad>> = (0..order.len())
                .map(|c| {
                    rows.iter()
                        .map(|r| Grad::new(r[c], (c % 3 == 0) as u8 as f32, (c % 3 == 1) as u8 as f32, (c % 3 == 2) as u8 as f32))
                        .collect()
                })
                .collect();
            let o = ev.ge.eval(&tape, &cols).map_err(|e| err(format!("{e:?}")))?;
            let mut words = vec![o.len() as u32];
            if !cols.is_empty() {
                for k in 0..o.len() {
                    words.push(o[k].len() as u32);
                    words.extend(o[k].iter().flat_map(|g| [nb(g.v), nb(g.dx), nb(g.dy), nb(g.dz)]));
                }
            }
            tstore.extend(tape.recycle());
            Ok(((words, None), None))
        }
    }
}

/// Rebuilds a function from its spec and simplification chain with fresh
/// objects only
fn fresh<F: MathFunction + Function<Trace = VmTrace>>(
    builts: &[(Built, Vec<Node>)],
    spec: usize,
    chain: &[(bool, usize)],
    inputs: &[Vec<Fl>],
) -> Result<F, Fail> {
    let (b, roots) = &builts[spec];
    let mut f = F::new(&b.ctx, roots).unwrap();
    for (interval, inp) in chain {
        let mut ev = Evals::<F>::new();
        let mut ts = vec![];
        let (_, tr) = eval_kind(&f, b, &mut ev, &mut ts, if *interval { 1 } else { 0 }, inputs, *inp, 1)?;
        let tr = tr.ok_or_else(|| Fail::new("harness", "fresh replay produced no trace"))?;
        let mut ws = Default::default();
        f = f
            .simplify(&tr, Default::default(), &mut ws)
            .map_err(|e| Fail::new("simplify-error", format!("{e:?}")))?;
    }
    Ok(f)
}

struct ShapeEvals<F: Function> {
    pe: fidget_core::shape::ShapeTracingEval<F::PointEval>,
    ie: fidget_core::shape::ShapeTracingEval<F::IntervalEval>,
    fe: fidget_core::shape::ShapeBulkEval<F::FloatSliceEval>,
    ge: fidget_core::shape::ShapeBulkEval<F::GradSliceEval>,
}

impl<F: Function + Clone> ShapeEvals<F> {
    fn new() -> Self {
        ShapeEvals {
            pe: Shape::<F>::new_point_eval(),
            ie: Shape::<F>::new_interval_eval(),
            fe: Shape::<F>::new_float_slice_eval(),
            ge: Shape::<F>::new_grad_slice_eval(),
        }
    }
}

/// One Shape-level evaluation as comparable words (errors included: a missing
/// variable must be reported the same way by reused and fresh objects)
fn shape_eval_kind<F: Function<Trace = VmTrace> + Clone>(
    shape: &Shape<F>,
    b: &Built,
    ev: &mut ShapeEvals<F>,
    tstore: &mut Vec<F::TapeStorage>,
    kind: u8,
    inputs: &[Vec<Fl>],
    inp: usize,
    n: usize,
) -> Result<Obs, Fail> {
    let pts: Vec<&Vec<Fl>> = (0..n).map(|j| &inputs[(inp + j) % inputs.len()]).collect();
    let mut sv: ShapeVars<f32> = ShapeVars::new();
    for (i, v) in b.vars.iter().enumerate().skip(3) {
        if let Some(ix) = v.index() {
            sv.insert(ix, pts[0][i].0);
        }
    }
    let err = |e: String| Fail::new("eval-error", e);
    let (x, y, z) = (pts[0][0].0, pts[0][1].0, pts[0][2].0);
    match kind % 4 {
        0 => {
            let tape = shape.point_tape(tstore.pop().unwrap_or_default());
            let (o, t) = ev
                .pe
                .eval_with_vars(&tape, x, y, z, &sv)
                .map_err(|e| err(format!("{e:?}")))?;
            let tb = t.map(|t| t.as_slice().iter().map(|c| *c as u8).collect());
            let r = (vec![nb(o)], tb);
            tstore.extend(tape.recycle());
            Ok(r)
        }
        1 => {
            let tape = shape.interval_tape(tstore.pop().unwrap_or_default());
            let (o, t) = ev
                .ie
                .eval_with_vars(&tape, interval_of(x), interval_of(y), interval_of(z), &sv)
                .map_err(|e| err(format!("{e:?}")))?;
            let tb = t.map(|t| t.as_slice().iter().map(|c| *c as u8).collect());
            let r = (vec![nb(o.lower()), nb(o.upper())], tb);
            tstore.extend(tape.recycle());
            Ok(r)
        }
        2 => {
            let tape = shape.float_slice_tape(tstore.pop().unwrap_or_default());
            let col = |c: usize| -> Vec<f32> { pts.iter().map(|p| p[c].0).collect() };
            let o = ev
                .fe
                .eval_with_vars(&tape, &col(0), &col(1), &col(2), &sv)
                .map_err(|e| err(format!("{e:?}")))?;
            let mut words = vec![o.len() as u32];
            words.extend(o.iter().map(|v| nb(*v)));
            tstore.extend(tape.recycle());
            Ok((words, None))
        }
        _ => {
            let tape = shape.grad_slice_tape(tstore.pop().unwrap_or_default());
            let col = |c: usize| -> Vec<Grad> {
                pts.iter()
                    .map(|p| {
                        Grad::new(p[c].0, (c == 0) as u8 as f32, (c == 1) as u8 as f32, (c == 2) as u8 as f32)
                    })
                    .collect()
            };
            let o = ev
                .ge
                .eval_with_vars(&tape, &col(0), &col(1), &col(2), &sv)
                .map_err(|e| err(format!("{e:?}")))?;
            let mut words = vec![o.len() as u32];
            words.extend(o.iter().flat_map(|g| [nb(g.v), nb(g.dx), nb(g.dy), nb(g.dz)]));
            tstore.extend(tape.recycle());
            Ok((words, None))
        }
    }
}

/// The tape behind a function, where the backend exposes it: the advertised
/// slot count and the instruction listing are results of a simplification too
/// (they size the interpreter's slot array and the JIT's stack frame)
pub trait TapeView {
    fn tape_view(&self) -> Option<(usize, Vec<fidget_core::compiler::RegOp>)>;
}
impl<const N: usize> TapeView for fidget_core::vm::GenericVmFunction<N> {
    fn tape_view(&self) -> Option<(usize, Vec<fidget_core::compiler::RegOp>)> {
        Some((self.data().slot_count(), self.data().iter_asm().collect()))
    }
}
impl TapeView for JitFunction {
    fn tape_view(&self) -> Option<(usize, Vec<fidget_core::compiler::RegOp>)> {
        None
    }
}

fn run<F: MathFunction + Function<Trace = VmTrace> + fidget_core::render::RenderHints + TapeView>(
    case: &Case,
    cx: &mut Cx,
) -> CheckResult {
    let builts: Vec<(Built, Vec<Node>)> = case
        .fns
        .iter()
        .map(|(dag, outs)| {
            let b = build_dag(dag);
            let roots = crate::p01::roots_of(&b, &Some(outs.clone()));
            (b, roots)
        })
        .collect();
    if case.inputs.is_empty() || builts.is_empty() {
        return Ok(());
    }
    // long-lived objects
    let mut evs = Evals::<F>::new();
    let mut sevs = ShapeEvals::<F>::new();
    let mut last_shape: [Option<(usize, usize)>; 4] = [None; 4];
    let mut tstore: Vec<F::TapeStorage> = vec![];
    let mut fstore: Vec<F::Storage> = vec![];
    let mut ws: F::Workspace = Default::default();
    let mut live: Vec<Live<F>> = vec![];
    for (i, (b, roots)) in builts.iter().enumerate() {
        live.push(Live {
            f: Some(F::new(&b.ctx, roots).unwrap()),
            spec: i,
            chain: vec![],
        });
    }
    let mut last_used: [Option<(usize, usize)>; 4] = [None; 4];
    let (mut big_small, mut small_big) = (false, false);
    let mut storage_reused = false;

    for (step, op) in case.ops.iter().enumerate() {
        let pick = |sel: u16, live: &Vec<Live<F>>| sel_index(sel, live.len());
        match op {
            Op::Eval { f, kind, inp, n } => {
                let li = pick(*f, &live);
                let Some(func) = live[li].f.as_ref() else { continue };
                let b = &builts[live[li].spec].0;
                let inp = sel_index(*inp, case.inputs.len());
                let n = (*n as usize % 9) + 1;
                let k = (*kind % 4) as usize;
                let sz = (func.size(), func.output_count());
                if let Some(prev) = last_used[k] {
                    if prev.0 > sz.0 && prev.1 >= sz.1 && prev != sz {
                        big_small = true;
                    }
                    if prev.0 < sz.0 && prev.1 <= sz.1 && prev != sz {
                        small_big = true;
                    }
                }
                last_used[k] = Some(sz);
                if !tstore.is_empty() {
                    storage_reused = true;
                }
                let (got, _) = eval_kind(func, b, &mut evs, &mut tstore, *kind, &case.inputs, inp, n)?;
                // the same call with brand-new objects
                let ff: F = fresh(&builts, live[li].spec, &live[li].chain, &case.inputs)?;
                let mut fe = Evals::<F>::new();
                let mut fts = vec![];
                let (want, _) = eval_kind(&ff, b, &mut fe, &mut fts, *kind, &case.inputs, inp, n)?;
                cx.ev.count("eval_comparisons");
                if got != want {
                    let w = got.0.iter().zip(&want.0).position(|(a, b)| a != b);
                    fail!(
                        "reuse-changes-eval",
                        "step {step}: kind {k} on function {li} (size {}, {} outputs): reused objects give a different result than fresh ones (first differing word {w:?}, lengths {} vs {}, traces {:?} vs {:?})",
                        sz.0,
                        sz.1,
                        got.0.len(),
                        want.0.len(),
                        got.1,
                        want.1
                    );
                }
                if let (Some(a), Some(b)) = (func.tape_view(), ff.tape_view()) {
                    cx.ev.count("tapes_compared_with_fresh");
                    ensure!(
                        a.0 == b.0 && format!("{:?}", a.1) == format!("{:?}", b.1),
                        "reuse-changes-function",
                        "step {step}: the tape of function {li} built through recycled storage differs from the fresh one: {} slots / {} ops vs {} slots / {} ops",
                        a.0,
                        a.1.len(),
                        b.0,
                        b.1.len()
                    );
                }
                ensure!(
                    func.size() == ff.size()
                        && func.output_count() == ff.output_count()
                        && func.vars().len() == ff.vars().len(),
                    "reuse-changes-function",
                    "step {step}: size/outputs/vars {} {} {} vs fresh {} {} {}",
                    func.size(),
                    func.output_count(),
                    func.vars().len(),
                    ff.size(),
                    ff.output_count(),
                    ff.vars().len()
                );
            }
            Op::Simplify { f, interval, inp } => {
                let li = pick(*f, &live);
                let Some(func) = live[li].f.as_ref() else { continue };
                if live[li].chain.len() >= 3 {
                    continue;
                }
                let b = &builts[live[li].spec].0;
                let inp = sel_index(*inp, case.inputs.len());
                let kind = if *interval { 1 } else { 0 };
                let (_, tr) = eval_kind(func, b, &mut evs, &mut tstore, kind, &case.inputs, inp, 1)?;
                let Some(tr) = tr else { continue };
                if !fstore.is_empty() {
                    storage_reused = true;
                }
                let child = func
                    .simplify(&tr, fstore.pop().unwrap_or_default(), &mut ws)
                    .map_err(|e| Fail::new("simplify-error", format!("step {step}: {e:?}")))?;
                let mut chain = live[li].chain.clone();
                chain.push((*interval, inp));
                // compare structure with a fresh rebuild
                let ff: F = fresh(&builts, live[li].spec, &chain, &case.inputs)?;
                cx.ev.count("simplify_comparisons");
                ensure!(
                    child.size() == ff.size()
                        && child.output_count() == ff.output_count()
                        && child.can_simplify() == ff.can_simplify(),
                    "reuse-changes-simplify",
                    "step {step}: child size {} outputs {} vs fresh {} {}",
                    child.size(),
                    child.output_count(),
                    ff.size(),
                    ff.output_count()
                );
                let spec = live[li].spec;
                live.push(Live {
                    f: Some(child),
                    spec,
                    chain,
                });
            }
            Op::RecycleFn { f } => {
                let li = pick(*f, &live);
                if live.iter().filter(|l| l.f.is_some()).count() <= 1 {
                    continue;
                }
                if let Some(func) = live[li].f.take() {
                    cx.ev.count("functions_recycled");
                    fstore.extend(func.recycle());
                }
            }
            Op::ShapeEval { f, kind, inp, n } => {
                let li = pick(*f, &live);
                let Some(func) = live[li].f.as_ref() else { continue };
                if func.output_count() != 1 {
                    continue;
                }
                let b = &builts[live[li].spec].0;
                let inp = sel_index(*inp, case.inputs.len());
                let n = (*n as usize % 20) + 1;
                let k = (*kind % 4) as usize;
                let shape = Shape::new_raw(func.clone());
                let nv = func.vars().len();
                if let Some((pv, pn)) = last_shape[k] {
                    if pv > nv && pn != n {
                        cx.ev.count("shape_evaluator_reused_with_fewer_variables_and_other_batch_size");
                    }
                }
                last_shape[k] = Some((nv, n));
                let got = shape_eval_kind(&shape, b, &mut sevs, &mut tstore, *kind, &case.inputs, inp, n)?;
                let ff: F = fresh(&builts, live[li].spec, &live[li].chain, &case.inputs)?;
                let fshape = Shape::new_raw(ff);
                let mut fe = ShapeEvals::<F>::new();
                let mut fts = vec![];
                let want = shape_eval_kind(&fshape, b, &mut fe, &mut fts, *kind, &case.inputs, inp, n)?;
                cx.ev.count("shape_eval_comparisons");
                if got != want {
                    fail!(
                        "reuse-changes-eval",
                        "step {step}: Shape-level kind {k} on function {li} ({nv} variables, batch {n}): reused evaluator gives a different result than a fresh one (lengths {} vs {}, traces {:?} vs {:?})",
                        got.0.len(),
                        want.0.len(),
                        got.1,
                        want.1
                    );
                }
            }
            Op::Handle { f, inps } => {
                let li = pick(*f, &live);
                let Some(func) = live[li].f.as_ref() else { continue };
                if func.output_count() != 1 {
                    continue;
                }
                let b = &builts[live[li].spec].0;
                let order = order_of(func, b);
                // RenderHandle works on Shapes with x, y, z and named vars
                let shape = Shape::new_raw(func.clone());
                let vars: ShapeVars<f32> = ShapeVars::new();
                if b.vars.len() > 3 && func.vars().len() > 0 {
                    // free variables would need binding; only xyz shapes here
                    if b.vars.iter().skip(3).any(|v| func.vars().get(v).is_some()) {
                        continue;
                    }
                }
                let mut rh = RenderHandle::new(shape);
                let mut ie = Shape::<F>::new_interval_eval();
                let mut fe = Shape::<F>::new_float_slice_eval();
                cx.ev.count("render_handle_histories");
                for inp in inps {
                    let inp = sel_index(*inp, case.inputs.len());
                    let p = &case.inputs[inp];
                    let _ = &order;
                    let (x, y, z) = (p[0].0, p[1].0, p[2].0);
                    let (iv, tr) = ie
                        .eval_with_vars(
                            rh.i_tape(&mut tstore),
                            interval_of(x),
                            interval_of(y),
                            interval_of(z),
                            &vars,
                        )
                        .map_err(|e| Fail::new("eval-error", format!("{e:?}")))?;
                    let tr = tr.cloned();
                    // reference: fresh function, fresh everything
                    let ff: F = fresh(&builts, live[li].spec, &live[li].chain, &case.inputs)?;
                    let fshape = Shape::new_raw(ff);
                    let mut fie = Shape::<F>::new_interval_eval();
                    let ftape = fshape.interval_tape(Default::default());
                    let (fiv, ftr) = fie
                        .eval_with_vars(&ftape, interval_of(x), interval_of(y), interval_of(z), &vars)
                        .unwrap();
                    ensure!(
                        nb(iv.lower()) == nb(fiv.lower())
                            && nb(iv.upper()) == nb(fiv.upper())
                            && tr.as_ref().map(|t| t.as_slice().to_vec())
                                == ftr.map(|t| t.as_slice().to_vec()),
                        "reuse-changes-eval",
                        "step {step}: RenderHandle interval eval differs from fresh objects"
                    );
                    if let Some(tr) = tr {
                        let sub = rh.simplify(&tr, &mut ws, &mut fstore, &mut tstore);
                        let out = fe
                            .eval_with_vars(sub.f_tape(&mut tstore), &[x], &[y], &[z], &vars)
                            .map_err(|e| Fail::new("eval-error", format!("{e:?}")))?;
                        let got = nb(out[0]);
                        let mut fws = Default::default();
                        let fsub = fshape
                            .simplify(&tr, Default::default(), &mut fws)
                            .map_err(|e| Fail::new("simplify-error", format!("{e:?}")))?;
                        let mut ffe = Shape::<F>::new_float_slice_eval();
                        let ft = fsub.float_slice_tape(Default::default());
                        let want = nb(ffe.eval_with_vars(&ft, &[x], &[y], &[z], &vars).unwrap()[0]);
                        cx.ev.count("render_handle_comparisons");
                        ensure!(
                            got == want,
                            "reuse-changes-eval",
                            "step {step}: RenderHandle simplified float-slice eval {got:08x} vs fresh {want:08x}"
                        );
                        // second level, as the renderers nest handles: a
                        // narrower box on the (possibly cached) child handle,
                        // its trace, the grandchild's float-slice value
                        let narrow = |v: f32| {
                            if v.is_finite() && v.abs() < 1e30 {
                                Interval::new(v - 0.125, v + 0.125)
                            } else {
                                Interval::from(v)
                            }
                        };
                        // (the handle documents that it keeps the parent when
                        // the simplified shape is not shorter; the reference
                        // follows the same rule)
                        let fsub = if fsub.size() < fshape.size() { fsub } else { fshape.clone() };
                        let (iv2, tr2) = ie
                            .eval_with_vars(sub.i_tape(&mut tstore), narrow(x), narrow(y), narrow(z), &vars)
                            .map_err(|e| Fail::new("eval-error", format!("{e:?}")))?;
                        let tr2 = tr2.cloned();
                        let fit = fsub.interval_tape(Default::default());
                        let mut fie2 = Shape::<F>::new_interval_eval();
                        let (fiv2, ftr2) = fie2
                            .eval_with_vars(&fit, narrow(x), narrow(y), narrow(z), &vars)
                            .unwrap();
                        ensure!(
                            nb(iv2.lower()) == nb(fiv2.lower())
                                && nb(iv2.upper()) == nb(fiv2.upper())
                                && tr2.as_ref().map(|t| t.as_slice().to_vec())
                                    == ftr2.map(|t| t.as_slice().to_vec()),
                            "reuse-changes-eval",
                            "step {step}: nested RenderHandle interval eval differs from fresh objects"
                        );
                        if let Some(tr2) = tr2 {
                            let sub2 = sub.simplify(&tr2, &mut ws, &mut fstore, &mut tstore);
                            let out = fe
                                .eval_with_vars(sub2.f_tape(&mut tstore), &[x], &[y], &[z], &vars)
                                .map_err(|e| Fail::new("eval-error", format!("{e:?}")))?;
                            let got = nb(out[0]);
                            let mut fws2 = Default::default();
                            let fsub2 = fsub
                                .simplify(&tr2, Default::default(), &mut fws2)
                                .map_err(|e| Fail::new("simplify-error", format!("{e:?}")))?;
                            let mut ffe2 = Shape::<F>::new_float_slice_eval();
                            let ft2 = fsub2.float_slice_tape(Default::default());
                            let want =
                                nb(ffe2.eval_with_vars(&ft2, &[x], &[y], &[z], &vars).unwrap()[0]);
                            cx.ev.count("render_handle_nested_comparisons");
                            ensure!(
                                got == want,
                                "reuse-changes-eval",
                                "step {step}: nested RenderHandle float-slice eval {got:08x} vs fresh {want:08x}"
                            );
                        }
                    }
                }
                rh.recycle(&mut fstore, &mut tstore);
            }
        }
    }
    if (big_small || small_big) && storage_reused {
        if big_small {
            cx.ev.count("evaluator_reused_bigger_then_smaller");
        }
        if small_big {
            cx.ev.count("evaluator_reused_smaller_then_bigger");
        }
        cx.ev.nontrivial(case);
    }
    Ok(())
}

impl Prop for P {
    const ID: &'static str = "C10";
    type Case = Case;

    fn strategy(tier: Tier) -> BoxedStrategy<Case> {
        let mut p = gens::DagParams::all(tier.pick(40, 120)).boost_choices(6);
        p.min_vars = 3;
        p.max_vars = 5;
        let f = (gens::dag(p), vec(any::<u16>(), 1..=4));
        let op = prop_oneof![
            6 => (any::<u16>(), 0u8..4, any::<u16>(), any::<u8>())
                .prop_map(|(f, kind, inp, n)| Op::Eval { f, kind, inp, n }),
            3 => (any::<u16>(), any::<bool>(), any::<u16>())
                .prop_map(|(f, interval, inp)| Op::Simplify { f, interval, inp }),
            1 => any::<u16>().prop_map(|f| Op::RecycleFn { f }),
            1 => (any::<u16>(), vec(any::<u16>(), 1..=4))
                .prop_map(|(f, inps)| Op::Handle { f, inps }),
            2 => (any::<u16>(), 0u8..4, any::<u16>(), any::<u8>())
                .prop_map(|(f, kind, inp, n)| Op::ShapeEval { f, kind, inp, n }),
        ];
        (
            vec(f, 2..=4),
            gens::points(2..=10, prop_oneof![4 => gens::fl_moderate(), 1 => gens::fl_any()].boxed()),
            vec(op, 2..=tier.pick(20, 40)),
            any::<bool>(),
            prop_oneof![2 => Just(0u8), 1 => Just(4u8), 1 => Just(8u8)],
        )
            .prop_map(|(fns, inputs, ops, jit, small)| Case {
                fns,
                inputs,
                ops,
                jit,
                small,
            })
            .boxed()
    }

    fn check(case: &Case, cx: &mut Cx) -> CheckResult {
        if case.jit {
            cx.ev.count("backend_jit");
            run::<JitFunction>(case, cx)
        } else if case.small == 4 {
            cx.ev.count("backend_vm_4_registers");
            run::<fidget_core::vm::GenericVmFunction<4>>(case, cx)
        } else if case.small == 8 {
            cx.ev.count("backend_vm_8_registers");
            run::<fidget_core::vm::GenericVmFunction<8>>(case, cx)
        } else {
            cx.ev.count("backend_vm");
            run::<VmFunction>(case, cx)
        }
    }

    fn reduce(case: &Case) -> Vec<Case> {
        let mut out = vec![];
        for k in 0..case.ops.len() {
            let mut c = case.clone();
            c.ops.remove(k);
            out.push(c);
        }
        out
    }

    fn plan(tier: Tier) -> Plan {
        match tier {
            Tier::Quick => Plan {
                workers: 16,
                cases_per_worker: 5000,
                timeout_s: 1800,
                max_shrink_iters: 1500,
            },
            Tier::Thorough => Plan {
                workers: 16,
                cases_per_worker: 250000,
                timeout_s: 14400,
                max_shrink_iters: 1500,
            },
        }
    }

    fn rule() -> &'static str {
        "generated histories (2-40 operations) over 2-4 functions that differ in slot, choice, output and variable \
         counts (results compared with fresh objects include, for the interpreter, the tape itself: slot count and instruction listing): Eval (point / interval / float-slice 1-9 samples / grad-slice) with ONE long-lived evaluator per kind and \
         tape storage taken from a shared pool and recycled afterwards; Simplify with a trace from the long-lived \
         evaluator, function storage from a pool of recycled functions and ONE shared workspace; RecycleFn; and \
         RenderHandle sub-histories (interval eval -> cached simplify -> float-slice eval -> nested once more on the child handle -> recycle into the same pools); \
         ShapeEval with ONE long-lived Shape-level evaluator per kind (own scratch columns; batches of 1-20 samples, free variables bound through ShapeVars); \
         interpreter (255, 8 or 4 registers, the small budgets making nearly every tape spill) or JIT. Model: after every Eval / Simplify the same call is made on brand-new objects (function \
         rebuilt from its spec and simplification chain, fresh storage, fresh evaluator, fresh workspace); outputs, traces, \
         size, output_count and variable count must be identical bit-for-bit. Non-trivial = an evaluator last used by a \
         bigger function (more tape, >= outputs) is reused by a smaller one or vice versa, with recycled storage in play."
    }
}
