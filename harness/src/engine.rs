//! Property-check engine: proptest-driven workers in child processes, evidence
//! merging, known findings, replay files.
use proptest::strategy::{BoxedStrategy, Strategy};
use proptest::test_runner::{Config, RngSeed, TestCaseError, TestError, TestRunner};
use serde::{Deserialize, Serialize, de::DeserializeOwned};
use serde_json::{Value, json};
use std::cell::RefCell;
use std::collections::{BTreeMap, BTreeSet};
use std::fmt::Debug;
use std::io::Write;
use std::path::{Path, PathBuf};
use std::time::{Duration, Instant};

/// The /verif directory this binary belongs to: <verif>/harness/target/verif/fv
pub fn verif_dir() -> PathBuf {
    if let Ok(d) = std::env::var("FV_VERIF_DIR") {
        return PathBuf::from(d);
    }
    std::env::current_exe()
        .ok()
        .and_then(|e| e.ancestors().nth(4).map(|p| p.to_path_buf()))
        .filter(|p| p.join("properties.jsonl").exists())
        .unwrap_or_else(|| PathBuf::from("/verif"))
}

#[derive(Copy, Clone, Debug, PartialEq, Eq, Serialize, Deserialize)]
pub enum Tier {
    Quick,
    Thorough,
}

impl Tier {
    pub fn parse(s: &str) -> Tier {
        match s {
            "quick" => Tier::Quick,
            "thorough" => Tier::Thorough,
            _ => panic!("bad tier {s}"),
        }
    }
    pub fn name(&self) -> &'static str {
        match self {
            Tier::Quick => "quick",
            Tier::Thorough => "thorough",
        }
    }
    /// Picks a value by tier
    pub fn pick<T>(&self, q: T, t: T) -> T {
        match self {
            Tier::Quick => q,
            Tier::Thorough => t,
        }
    }
}

/// A failed obligation
#[derive(Clone, Debug, Serialize, Deserialize)]
pub struct Fail {
    /// Signature: identifies the *kind* of failure (matched against
    /// known_findings.json keys)
    pub sig: String,
    /// Human-readable details (observed / expected)
    pub msg: String,
}

impl Fail {
    pub fn new(sig: impl Into<String>, msg: impl Into<String>) -> Self {
        Fail {
            sig: sig.into(),
            msg: msg.into(),
        }
    }
}

pub type CheckResult = Result<(), Fail>;

#[macro_export]
macro_rules! fail {
    ($sig:expr, $($arg:tt)*) => {
        return Err($crate::engine::Fail::new($sig, format!($($arg)*)))
    };
}

#[macro_export]
macro_rules! ensure {
    ($cond:expr, $sig:expr, $($arg:tt)*) => {
        if !($cond) {
            return Err($crate::engine::Fail::new($sig, format!($($arg)*)));
        }
    };
}

////////////////////////////////////////////////////////////////////////////////
// Evidence

#[derive(Default, Serialize, Deserialize, Clone)]
pub struct Evidence {
    #[serde(skip)]
    pub frozen: bool,
    pub evaluations: u64,
    pub nontrivial: BTreeSet<u64>,
    pub counters: BTreeMap<String, u64>,
    pub samples: Vec<Value>,
    pub known_hits: BTreeMap<String, u64>,
}

impl Evidence {
    pub fn count(&mut self, key: &str) {
        self.add(key, 1);
    }
    pub fn add(&mut self, key: &str, n: u64) {
        if !self.frozen {
            *self.counters.entry(key.to_string()).or_insert(0) += n;
        }
    }
    pub fn max(&mut self, key: &str, n: u64) {
        if !self.frozen {
            let e = self.counters.entry(key.to_string()).or_insert(0);
            *e = (*e).max(n);
        }
    }
    /// Marks the current case non-trivial (by the property's stated rule)
    pub fn nontrivial<T: Serialize>(&mut self, case: &T) {
        if self.frozen {
            return;
        }
        let s = serde_json::to_string(case).unwrap();
        let fp = fingerprint(s.as_bytes());
        if self.nontrivial.insert(fp) && self.samples.len() < 3 && s.len() < 6000 {
            self.samples.push(serde_json::from_str(&s).unwrap());
        }
    }
    pub fn merge(&mut self, o: &Evidence) {
        self.evaluations += o.evaluations;
        self.nontrivial.extend(o.nontrivial.iter().cloned());
        for (k, v) in &o.counters {
            if k.starts_with("max_") {
                let e = self.counters.entry(k.clone()).or_insert(0);
                *e = (*e).max(*v);
            } else {
                *self.counters.entry(k.clone()).or_insert(0) += v;
            }
        }
        for s in &o.samples {
            if self.samples.len() < 5 {
                self.samples.push(s.clone());
            }
        }
        for (k, v) in &o.known_hits {
            *self.known_hits.entry(k.clone()).or_insert(0) += v;
        }
    }
}

pub fn fingerprint(b: &[u8]) -> u64 {
    // FNV-1a, 64 bit
    let mut h: u64 = 0xcbf29ce484222325;
    for &c in b {
        h ^= c as u64;
        h = h.wrapping_mul(0x100000001b3);
    }
    h
}

pub fn splitmix(mut x: u64) -> u64 {
    x = x.wrapping_add(0x9E3779B97F4A7C15);
    let mut z = x;
    z = (z ^ (z >> 30)).wrapping_mul(0xBF58476D1CE4E5B9);
    z = (z ^ (z >> 27)).wrapping_mul(0x94D049BB133111EB);
    z ^ (z >> 31)
}

////////////////////////////////////////////////////////////////////////////////
// Known findings

#[derive(Clone, Debug, Serialize, Deserialize)]
pub struct Finding {
    pub property: String,
    pub key: String,
    pub status: String,
    #[serde(default)]
    pub commit: Option<String>,
    pub what: String,
    #[serde(default)]
    pub regress: Vec<String>,
}

#[derive(Clone, Debug, Default)]
pub struct Known {
    pub all: Vec<Finding>,
}

impl Known {
    pub fn load() -> Known {
        let p = verif_dir().join("known_findings.json");
        let Ok(s) = std::fs::read_to_string(&p) else {
            return Known::default();
        };
        let v: Value = serde_json::from_str(&s).expect("known_findings.json");
        let all: Vec<Finding> =
            serde_json::from_value(v["findings"].clone()).expect("findings");
        Known { all }
    }
    pub fn is_open(&self, prop: &str, key: &str) -> bool {
        self.all
            .iter()
            .any(|f| f.property == prop && f.key == key && f.status == "open")
    }
}

/// Context handed to every check
pub struct Cx<'a> {
    pub prop: &'static str,
    pub ev: &'a mut Evidence,
    pub known: &'a Known,
    pub tier: Tier,
    /// strict: known findings are *not* tolerated (used by regress replays)
    pub strict: bool,
}

impl Cx<'_> {
    /// Returns true if a failure with this signature is a listed open finding
    /// (it is then counted and must be tolerated by the caller)
    pub fn known(&mut self, key: &str) -> bool {
        if self.strict {
            return false;
        }
        if self.known.is_open(self.prop, key) {
            if !self.ev.frozen {
                *self.ev.known_hits.entry(key.to_string()).or_insert(0) += 1;
            }
            true
        } else {
            false
        }
    }
    /// Either tolerates a known finding or returns the failure
    pub fn known_or(&mut self, key: &str, msg: impl FnOnce() -> String) -> CheckResult {
        if self.known(key) {
            Ok(())
        } else {
            Err(Fail::new(key, msg()))
        }
    }
}

////////////////////////////////////////////////////////////////////////////////
// Property trait

#[derive(Copy, Clone, Debug)]
pub struct Plan {
    pub workers: usize,
    pub cases_per_worker: u32,
    /// watchdog for one worker
    pub timeout_s: u64,
    /// proptest shrink iterations (expensive checks use a small number)
    pub max_shrink_iters: u32,
}

pub trait Prop: 'static {
    const ID: &'static str;
    type Case: Serialize + DeserializeOwned + Debug + Clone + 'static;
    fn strategy(tier: Tier) -> BoxedStrategy<Self::Case>;
    fn check(case: &Self::Case, cx: &mut Cx) -> CheckResult;
    fn plan(tier: Tier) -> Plan;
    /// How cases are generated and what makes one non-trivial / distinct
    fn rule() -> &'static str;
    fn assumptions() -> Vec<&'static str> {
        vec![]
    }
    /// Deterministic cases executed (by worker 0) before the random ones
    fn fixed_cases(_tier: Tier) -> Vec<Self::Case> {
        vec![]
    }
    /// Smaller variants of a failing case, tried after proptest's own
    /// shrinking (a variant is kept if it still fails)
    fn reduce(_case: &Self::Case) -> Vec<Self::Case> {
        vec![]
    }
}

////////////////////////////////////////////////////////////////////////////////
// Panic capture

thread_local! {
    static LAST_PANIC: RefCell<Option<String>> = const { RefCell::new(None) };
}

pub fn install_quiet_panic_hook() {
    std::panic::set_hook(Box::new(|info| {
        let loc = info
            .location()
            .map(|l| format!("{}:{}", l.file(), l.line()))
            .unwrap_or_default();
        let msg = if let Some(s) = info.payload().downcast_ref::<&str>() {
            s.to_string()
        } else if let Some(s) = info.payload().downcast_ref::<String>() {
            s.clone()
        } else {
            "<non-string panic>".to_string()
        };
        if std::env::var("FV_LOUD").is_ok() {
            eprintln!("panic at {loc}: {msg}");
        }
        LAST_PANIC.with(|p| *p.borrow_mut() = Some(format!("{loc}: {msg}")));
    }));
}

pub fn take_last_panic() -> String {
    LAST_PANIC
        .with(|p| p.borrow_mut().take())
        .unwrap_or_else(|| "<panic>".to_string())
}

/// Strips the line number and volatile numbers from a panic message to get
/// a stable signature
fn panic_sig(s: &str) -> String {
    let loc = s.split(": ").next().unwrap_or("");
    let file = loc.rsplit('/').next().unwrap_or(loc);
    format!("panic@{file}")
}

/// Runs a check, converting panics into failures
pub fn run_check<P: Prop>(case: &P::Case, cx: &mut Cx) -> CheckResult {
    let r = std::panic::catch_unwind(std::panic::AssertUnwindSafe(|| {
        P::check(case, cx)
    }));
    match r {
        Ok(r) => r,
        Err(_) => {
            let p = take_last_panic();
            Err(Fail::new(panic_sig(&p), format!("panic: {p}")))
        }
    }
}

////////////////////////////////////////////////////////////////////////////////
// Replay files

#[derive(Serialize, Deserialize, Clone, Debug)]
pub struct ReplayFile {
    pub property: String,
    /// "violation" (found by a run), "fixed" (regression for a repaired
    /// defect: must pass) or "known" (open finding: expected to fail with
    /// signature `sig`)
    pub kind: String,
    pub sig: String,
    pub msg: String,
    pub case: Value,
}

pub fn write_replay(prop: &str, sig: &str, msg: &str, case: &Value) -> PathBuf {
    let dir = verif_dir().join("replays");
    std::fs::create_dir_all(&dir).ok();
    let body = serde_json::to_string(case).unwrap();
    let fp = fingerprint(format!("{sig}{body}").as_bytes());
    let path = dir.join(format!("{prop}-{fp:016x}.json"));
    let r = ReplayFile {
        property: prop.to_string(),
        kind: "violation".into(),
        sig: sig.into(),
        msg: msg.into(),
        case: case.clone(),
    };
    std::fs::write(&path, serde_json::to_string_pretty(&r).unwrap()).unwrap();
    path
}

////////////////////////////////////////////////////////////////////////////////
// Worker

#[derive(Serialize, Deserialize, Default)]
pub struct WorkerReport {
    pub evidence: Evidence,
    pub violations: Vec<(String, String, String)>, // (sig, msg, replay path)
    pub done: bool,
}

pub struct WorkerArgs {
    pub tier: Tier,
    pub seed: u64,
    pub index: usize,
    pub cases: u32,
    pub out: PathBuf,
    pub crumb: PathBuf,
}

fn write_crumb(path: &Path, s: &str) {
    // Written before every case so the parent can recover the case that
    // killed the worker.
    if let Ok(mut f) = std::fs::File::create(path) {
        let _ = f.write_all(s.as_bytes());
    }
}

pub fn worker<P: Prop>(a: WorkerArgs) -> i32 {
    install_quiet_panic_hook();
    let known = Known::load();
    let mut ev = Evidence::default();
    let mut report = WorkerReport::default();
    let crumbs = std::env::var("FV_NO_CRUMBS").is_err();
    // FV_STRICT=1: known findings are not tolerated (used to harvest replay
    // files for them)
    let strict_env = std::env::var("FV_STRICT").is_ok();

    // Deterministic cases first
    if a.index == 0 {
        for case in P::fixed_cases(a.tier) {
            if crumbs {
                write_crumb(&a.crumb, &serde_json::to_string(&case).unwrap());
            }
            ev.evaluations += 1;
            let mut cx = Cx {
                prop: P::ID,
                ev: &mut ev,
                known: &known,
                tier: a.tier,
                strict: strict_env,
            };
            if let Err(f) = run_check::<P>(&case, &mut cx) {
                let v = serde_json::to_value(&case).unwrap();
                let p = write_replay(P::ID, &f.sig, &f.msg, &v);
                report
                    .violations
                    .push((f.sig, f.msg, p.display().to_string()));
            }
        }
    }

    let seed = splitmix(
        a.seed ^ splitmix(fingerprint(P::ID.as_bytes()) ^ (a.index as u64) << 32),
    );
    let cfg = Config {
        cases: a.cases,
        failure_persistence: None,
        rng_seed: RngSeed::Fixed(seed),
        max_shrink_iters: P::plan(a.tier).max_shrink_iters,
        max_global_rejects: 100_000,
        ..Config::default()
    };
    let mut runner = TestRunner::new(cfg);
    let strategy = P::strategy(a.tier);
    let failed = std::cell::Cell::new(false);
    let last_fail: RefCell<Option<Fail>> = RefCell::new(None);
    let ev_cell = RefCell::new(&mut ev);
    let result = if a.cases == 0 {
        Ok(())
    } else {
        runner.run(&strategy, |case| {
            let mut evb = ev_cell.borrow_mut();
            if failed.get() {
                evb.frozen = true;
            } else {
                evb.evaluations += 1;
            }
            if crumbs {
                write_crumb(&a.crumb, &serde_json::to_string(&case).unwrap());
            }
            let mut cx = Cx {
                prop: P::ID,
                ev: &mut evb,
                known: &known,
                tier: a.tier,
                strict: strict_env,
            };
            match run_check::<P>(&case, &mut cx) {
                Ok(()) => Ok(()),
                Err(f) => {
                    failed.set(true);
                    let m = format!("{}: {}", f.sig, f.msg);
                    *last_fail.borrow_mut() = Some(f);
                    Err(TestCaseError::fail(m))
                }
            }
        })
    };
    drop(ev_cell);
    ev.frozen = false;
    match result {
        Ok(()) => {}
        Err(TestError::Fail(_reason, case)) => {
            // Re-run the minimal case to get its own signature and message
            let mut scratch = Evidence::default();
            scratch.frozen = true;
            let mut cx = Cx {
                prop: P::ID,
                ev: &mut scratch,
                known: &known,
                tier: a.tier,
                strict: strict_env,
            };
            let mut case = case;
            let mut f = match run_check::<P>(&case, &mut cx) {
                Err(f) => f,
                Ok(()) => last_fail.borrow().clone().unwrap_or(Fail::new(
                    "flaky",
                    "minimal case passed when re-run (nondeterministic failure)",
                )),
            };
            // property-specific reduction passes
            let mut budget = 400;
            'outer: while budget > 0 {
                for cand in P::reduce(&case) {
                    budget -= 1;
                    if let Err(f2) = run_check::<P>(&cand, &mut cx) {
                        if f2.sig == f.sig {
                            case = cand;
                            f = f2;
                            continue 'outer;
                        }
                    }
                    if budget == 0 {
                        break;
                    }
                }
                break;
            }
            let v = serde_json::to_value(&case).unwrap();
            let p = write_replay(P::ID, &f.sig, &f.msg, &v);
            report
                .violations
                .push((f.sig, f.msg, p.display().to_string()));
        }
        Err(TestError::Abort(r)) => {
            eprintln!("worker {}: proptest aborted: {r}", a.index);
            report.evidence = ev;
            std::fs::write(&a.out, serde_json::to_string(&report).unwrap()).unwrap();
            return 2;
        }
    }
    report.evidence = ev;
    report.done = true;
    std::fs::write(&a.out, serde_json::to_string(&report).unwrap()).unwrap();
    0
}

////////////////////////////////////////////////////////////////////////////////
// Replay (in-process)

/// Returns Ok(()) if the case passes, Err(fail) otherwise
pub fn replay_case<P: Prop>(case: &Value, strict: bool) -> CheckResult {
    install_quiet_panic_hook();
    let known = Known::load();
    let case: P::Case = serde_json::from_value(case.clone())
        .map_err(|e| Fail::new("bad-replay-file", format!("{e}")))?;
    let mut ev = Evidence::default();
    let mut cx = Cx {
        prop: P::ID,
        ev: &mut ev,
        known: &known,
        tier: Tier::Quick,
        strict,
    };
    // run a few times: a hash-order dependent failure should still reproduce
    let mut r = Ok(());
    for _ in 0..3 {
        r = run_check::<P>(&case, &mut cx);
        if r.is_err() {
            break;
        }
    }
    r
}

////////////////////////////////////////////////////////////////////////////////
// Parent

fn exe() -> PathBuf {
    std::env::current_exe().unwrap()
}

pub enum ReplayOutcome {
    Pass,
    Fail(Fail),
    Crash(String),
    /// killed after this many seconds
    Timeout(u64),
}

/// Replays a file in a child process (crash-safe)
pub fn replay_in_child(path: &Path, strict: bool) -> ReplayOutcome {
    let mut cmd = std::process::Command::new(exe());
    cmd.arg("replay-inner").arg(path);
    if strict {
        cmd.arg("--strict");
    }
    // a replay that does not come back is killed (FV_REPLAY_TIMEOUT_S, default 120 s)
    let limit = std::env::var("FV_REPLAY_TIMEOUT_S")
        .ok()
        .and_then(|s| s.parse::<u64>().ok())
        .unwrap_or(120);
    cmd.stdout(std::process::Stdio::piped()).stderr(std::process::Stdio::piped());
    let mut child = cmd.spawn().expect("spawn replay");
    let t0 = Instant::now();
    loop {
        match child.try_wait().expect("wait for replay") {
            Some(_) => break,
            None if t0.elapsed() > Duration::from_secs(limit) => {
                let _ = child.kill();
                let _ = child.wait();
                return ReplayOutcome::Timeout(limit);
            }
            None => std::thread::sleep(Duration::from_millis(20)),
        }
    }
    let out = child.wait_with_output().expect("collect replay output");
    use std::os::unix::process::ExitStatusExt;
    if let Some(sig) = out.status.signal() {
        return ReplayOutcome::Crash(format!("killed by signal {sig}"));
    }
    match out.status.code() {
        Some(0) => ReplayOutcome::Pass,
        Some(1) => {
            let s = String::from_utf8_lossy(&out.stdout);
            let f = s
                .lines()
                .find_map(|l| l.strip_prefix("FAIL "))
                .and_then(|j| serde_json::from_str::<Fail>(j).ok())
                .unwrap_or(Fail::new("unknown", s.to_string()));
            ReplayOutcome::Fail(f)
        }
        c => ReplayOutcome::Crash(format!(
            "exit {c:?}: {}",
            String::from_utf8_lossy(&out.stderr)
        )),
    }
}

pub fn parent<P: Prop>(tier: Tier, seed: u64) -> i32 {
    let t0 = Instant::now();
    let plan = P::plan(tier);
    let known = Known::load();
    let tmp = verif_dir()
        .join("harness/target/run")
        .join(format!("{}-{}-{}", P::ID, tier.name(), std::process::id()));
    std::fs::create_dir_all(&tmp).unwrap();
    let mut violations: Vec<(String, String, String)> = vec![];
    let mut inconclusive = false;
    let mut notes: Vec<String> = vec![];

    // 1. regression replays
    let mut regress_run = 0;
    let mut known_lines = vec![];
    let rdir = verif_dir().join("regress");
    let mut files: Vec<PathBuf> = std::fs::read_dir(&rdir)
        .map(|d| d.filter_map(|e| e.ok().map(|e| e.path())).collect())
        .unwrap_or_default();
    files.sort();
    for f in files {
        let name = f.file_name().unwrap().to_string_lossy().to_string();
        if !name.starts_with(P::ID) || !name.ends_with(".json") {
            continue;
        }
        let rf: ReplayFile =
            serde_json::from_str(&std::fs::read_to_string(&f).unwrap()).unwrap();
        regress_run += 1;
        // open findings are replayed strictly (to see whether they still
        // reproduce); regressions of repaired defects tolerate *other* listed
        // findings
        let outcome = replay_in_child(&f, rf.kind == "known");
        match (rf.kind.as_str(), outcome) {
            ("known", ReplayOutcome::Pass) => {
                notes.push(format!(
                    "known finding {} no longer reproduces with {name}",
                    rf.sig
                ));
            }
            ("known", ReplayOutcome::Fail(fl)) if fl.sig == rf.sig => {
                if known.is_open(P::ID, &rf.sig) {
                    known_lines.push(rf.sig.clone());
                } else {
                    violations.push((fl.sig, fl.msg, f.display().to_string()));
                }
            }
            ("known", ReplayOutcome::Crash(c)) if rf.sig.starts_with("crash") => {
                if known.is_open(P::ID, &rf.sig) {
                    known_lines.push(rf.sig.clone());
                } else {
                    violations.push((rf.sig.clone(), c, f.display().to_string()));
                }
            }
            (_, ReplayOutcome::Pass) => {}
            (_, ReplayOutcome::Fail(fl)) => {
                violations.push((fl.sig, fl.msg, f.display().to_string()));
            }
            (_, ReplayOutcome::Crash(c)) => {
                violations.push(("crash".into(), c, f.display().to_string()));
            }
            // a repaired non-termination defect that is back
            ("fixed", ReplayOutcome::Timeout(t)) if rf.sig.starts_with("did-not-return") => {
                violations.push((
                    rf.sig.clone(),
                    format!("the call did not return within {t} s"),
                    f.display().to_string(),
                ));
            }
            (_, ReplayOutcome::Timeout(t)) => {
                inconclusive = true;
                notes.push(format!("replay of {name} did not finish within {t} s"));
            }
        }
    }

    // 2. random search in child workers
    let mut ev = Evidence::default();
    let mut children = vec![];
    for i in 0..plan.workers {
        children.push(spawn_worker::<P>(tier, seed, i, plan.cases_per_worker, &tmp, 0));
    }
    let deadline = Instant::now() + Duration::from_secs(plan.timeout_s);
    let mut crashes = 0;
    while !children.is_empty() {
        let mut still = vec![];
        for mut c in children.drain(..) {
            match c.child.try_wait().unwrap() {
                None => {
                    // one case that does not return: the breadcrumb has not been
                    // rewritten for a long time (cases take milliseconds to seconds)
                    let stale = std::fs::metadata(&c.crumb)
                        .and_then(|m| m.modified())
                        .ok()
                        .and_then(|t| t.elapsed().ok())
                        .map(|d| d.as_secs())
                        .unwrap_or(0);
                    let case_limit: u64 = std::env::var("FV_CASE_TIMEOUT_S")
                        .ok()
                        .and_then(|s| s.parse().ok())
                        .unwrap_or(300);
                    if stale > case_limit {
                        let _ = c.child.kill();
                        let _ = c.child.wait();
                        inconclusive = true;
                        let saved = std::fs::read_to_string(&c.crumb)
                            .ok()
                            .and_then(|s| serde_json::from_str::<Value>(&s).ok())
                            .map(|v| write_replay(P::ID, "did-not-return", "a worker spent more than the per-case limit on this case", &v));
                        notes.push(format!(
                            "worker {}: one case did not return within {case_limit} s; worker killed (case: {})",
                            c.index,
                            saved.map(|p| p.display().to_string()).unwrap_or("not saved".into())
                        ));
                    } else if Instant::now() > deadline {
                        let _ = c.child.kill();
                        let _ = c.child.wait();
                        inconclusive = true;
                        notes.push(format!(
                            "worker {} exceeded the watchdog ({} s); killed",
                            c.index, plan.timeout_s
                        ));
                    } else {
                        still.push(c);
                    }
                }
                Some(st) => {
                    let rep: Option<WorkerReport> = std::fs::read_to_string(&c.out)
                        .ok()
                        .and_then(|s| serde_json::from_str(&s).ok());
                    if let Some(rep) = rep.filter(|r| r.done) {
                        ev.merge(&rep.evidence);
                        violations.extend(rep.violations);
                    } else {
                        use std::os::unix::process::ExitStatusExt;
                        if st.code() == Some(2) {
                            inconclusive = true;
                            notes.push(format!("worker {} aborted", c.index));
                            continue;
                        }
                        // The worker died: the breadcrumb is the failing case
                        crashes += 1;
                        let how = match st.signal() {
                            Some(s) => format!("signal {s}"),
                            None => format!("exit {:?}", st.code()),
                        };
                        let crumb = std::fs::read_to_string(&c.crumb).ok();
                        if let Some(case) =
                            crumb.and_then(|s| serde_json::from_str::<Value>(&s).ok())
                        {
                            let sig = format!("crash:{how}");
                            let msg = format!("worker process died ({how}) while checking this case");
                            if known.is_open(P::ID, &sig) {
                                *ev.known_hits.entry(sig).or_insert(0) += 1;
                            } else {
                                let case = minimize_crash::<P>(case, &tmp);
                                let p = write_replay(P::ID, &sig, &msg, &case);
                                violations.push((sig, msg, p.display().to_string()));
                            }
                        } else {
                            inconclusive = true;
                            notes.push(format!(
                                "worker {} died ({how}) without a breadcrumb",
                                c.index
                            ));
                        }
                        // restart once per crash (bounded), with a new sub-seed
                        if crashes <= 3 {
                            still.push(spawn_worker::<P>(
                                tier,
                                seed,
                                c.index,
                                plan.cases_per_worker / 2,
                                &tmp,
                                crashes,
                            ));
                        }
                    }
                }
            }
        }
        children = still;
        if !children.is_empty() {
            std::thread::sleep(Duration::from_millis(20));
        }
    }

    // 3. report
    let mut seen = BTreeSet::new();
    let mut distinct = vec![];
    for v in &violations {
        if seen.insert(v.0.clone()) {
            distinct.push(v.clone());
        }
    }
    for k in BTreeSet::<String>::from_iter(known_lines.iter().cloned()) {
        let what = known
            .all
            .iter()
            .find(|f| f.property == P::ID && f.key == k)
            .map(|f| f.what.clone())
            .unwrap_or_default();
        println!("KNOWN-FINDING: property={} {k}: {what}", P::ID);
    }
    for (k, n) in &ev.known_hits {
        if !known_lines.contains(k) {
            let what = known
                .all
                .iter()
                .find(|f| f.property == P::ID && &f.key == k)
                .map(|f| f.what.clone())
                .unwrap_or_default();
            println!("KNOWN-FINDING: property={} {k}: {what} (hit {n} times)", P::ID);
        }
    }
    for (sig, msg, path) in &distinct {
        println!("VIOLATION property={} replay={}", P::ID, path);
        println!("  signature: {sig}");
        let m: String = msg.chars().take(600).collect();
        println!("  {m}");
    }
    for n in &notes {
        println!("note: {n}");
    }
    let wall = t0.elapsed().as_secs_f64();
    let mut coverage = json!({
        "evaluations": ev.evaluations + regress_run,
        "distinct_nontrivial": ev.nontrivial.len(),
        "rule": P::rule(),
        "samples": ev.samples,
        "classes": ev.counters,
        "regress_replayed": regress_run,
        "known_finding_hits_excluded": ev.known_hits,
        "worker_crashes": crashes,
        "workers": plan.workers,
        "cases_per_worker": plan.cases_per_worker,
    });
    if ev.samples.is_empty() {
        coverage["samples"] = json!(["<no non-trivial case small enough to print>"]);
    }
    let evidence = json!({
        "property_id": P::ID,
        "tier": tier.name(),
        "seed": seed,
        "level": "exploration",
        "coverage": coverage,
        "assumptions": P::assumptions(),
        "wall_s": wall,
        "violations": distinct.len(),
        "inconclusive": inconclusive,
        "notes": notes,
    });
    let edir = verif_dir().join("evidence");
    std::fs::create_dir_all(&edir).ok();
    std::fs::write(
        edir.join(format!("{}.json", P::ID)),
        serde_json::to_string_pretty(&evidence).unwrap(),
    )
    .unwrap();
    let _ = std::fs::remove_dir_all(&tmp);
    println!(
        "{} {}: {} cases, {} distinct non-trivial, {} violation(s), {:.1} s",
        P::ID,
        tier.name(),
        ev.evaluations,
        ev.nontrivial.len(),
        distinct.len(),
        wall
    );
    if !distinct.is_empty() {
        1
    } else if inconclusive {
        2
    } else {
        0
    }
}

/// Shrinks a case that kills the worker process, using the property's reduce
/// candidates and child-process replays ("still dies" is the criterion)
fn minimize_crash<P: Prop>(case: Value, tmp: &Path) -> Value {
    let Ok(mut cur) = serde_json::from_value::<P::Case>(case.clone()) else {
        return case;
    };
    let file = tmp.join("crash-candidate.json");
    let mut budget = 80;
    'outer: while budget > 0 {
        for cand in P::reduce(&cur) {
            if budget == 0 {
                break 'outer;
            }
            budget -= 1;
            let rf = ReplayFile {
                property: P::ID.to_string(),
                kind: "violation".into(),
                sig: "crash".into(),
                msg: String::new(),
                case: serde_json::to_value(&cand).unwrap(),
            };
            if std::fs::write(&file, serde_json::to_string(&rf).unwrap()).is_err() {
                break 'outer;
            }
            if let ReplayOutcome::Crash(_) = replay_in_child(&file, false) {
                cur = cand;
                continue 'outer;
            }
        }
        break;
    }
    serde_json::to_value(&cur).unwrap_or(case)
}

struct Running {
    child: std::process::Child,
    index: usize,
    out: PathBuf,
    crumb: PathBuf,
}

fn spawn_worker<P: Prop>(
    tier: Tier,
    seed: u64,
    index: usize,
    cases: u32,
    tmp: &Path,
    restart: u32,
) -> Running {
    let out = tmp.join(format!("w{index}-{restart}.json"));
    let crumb = tmp.join(format!("w{index}-{restart}.crumb"));
    let child = std::process::Command::new(exe())
        .arg("worker")
        .arg(P::ID)
        .arg(tier.name())
        .arg(splitmix(seed.wrapping_add(restart as u64 * 7919)).to_string())
        .arg(index.to_string())
        .arg(cases.to_string())
        .arg(&out)
        .arg(&crumb)
        .spawn()
        .expect("spawn worker");
    Running {
        child,
        index,
        out,
        crumb,
    }
}

/// Convenience for strategies: boxed
pub fn boxed<S: Strategy + 'static>(s: S) -> BoxedStrategy<S::Value> {
    s.boxed()
}
