//! C14 — shape evaluation binds variables by identity and applies the transform
use crate::build::*;
use crate::engine::*;
use crate::spec::*;
use crate::{ensure, fail};
use fidget_core::context::{Context, Node};
use fidget_core::eval::MathFunction;
use fidget_core::shape::{EzShape, Shape, ShapeBulkEvalError, ShapeTracingEvalError, ShapeVars};
use fidget_core::types::{Grad, Interval};
use fidget_core::var::Var;
use fidget_core::vm::VmFunction;
use fidget_jit::JitFunction;
use nalgebra::Matrix4;
use proptest::collection::vec;
use proptest::prelude::*;
use serde::{Deserialize, Serialize};
use std::collections::HashMap;

#[derive(Clone, Debug, Serialize, Deserialize)]
pub struct Case {
    /// which of x, y, z are used
    pub axes: [bool; 3],
    /// number of free variables
    pub nfree: u8,
    /// coefficient (eighths) of every variable: x, y, z, then free ones
    pub coeff: Vec<i8>,
    /// combination order: repeatedly combine pool[a] and pool[b] with op
    /// (0-2 add, 3 min, 4 max, 5 atan2) until one entry is left
    pub combine: Vec<(u16, u16, u8)>,
    /// values (quarters) of every variable, per sample
    pub samples: Vec<Vec<i8>>,
    /// 0 = none, 1 = affine, 2 = projective (w a power of two),
    /// 3 = projective with a general bottom row (denominator stays positive)
    pub xform: u8,
    pub mat: Vec<i8>,
    /// order in which variables are inserted into ShapeVars
    pub insert_order: Vec<u16>,
    pub extras: u8,
    /// index of a needed free variable to leave out in the "missing" run
    pub missing: u16,
    pub jit: bool,
}

pub struct P;

fn vars_of(case: &Case) -> Vec<Var> {
    let mut v = vec![];
    if case.axes[0] {
        v.push(Var::X)
    }
    if case.axes[1] {
        v.push(Var::Y)
    }
    if case.axes[2] {
        v.push(Var::Z)
    }
    for i in 0..case.nfree {
        v.push(var_v(700 + i as u64 * 13));
    }
    v
}

/// true if the combination uses atan2 (op 5): a call in native code, and a
/// function whose interval at atan2(0, 0) is outside C03's claim
fn has_call(case: &Case) -> bool {
    let n = vars_of(case).len();
    n >= 2 && case.combine.iter().cycle().take(n - 1).any(|c| c.2 % 6 == 5)
}

fn build(case: &Case) -> (Context, Node, Vec<Var>, bool) {
    let vars = vars_of(case);
    let mut ctx = Context::new();
    let mut pool: Vec<Node> = vec![];
    for (i, v) in vars.iter().enumerate() {
        // distinct non-zero dyadic coefficients: any slot mix-up changes the value
        let c = (i as f32 + 1.0) * 0.125 * if case.coeff[i % case.coeff.len()] < 0 { -1.0 } else { 1.0 }
            + (case.coeff[i % case.coeff.len()] as f32) * 8.0;
        let n = ctx.var(*v);
        pool.push(ctx.mul(n, c).unwrap());
    }
    if pool.is_empty() {
        pool.push(ctx.constant(1.5));
    }
    let mut linear = true;
    let call = has_call(case);
    let mut k = 0;
    while pool.len() > 1 {
        let (a, b, op) = case.combine[k % case.combine.len()];
        k += 1;
        let ia = sel_index(a, pool.len());
        let na = pool.remove(ia);
        let ib = sel_index(b, pool.len());
        let nb = pool.remove(ib);
        let n = match op % 6 {
            // with atan2 around, min / max are left out: the evaluators break
            // ties between zeros of opposite sign differently (C02's stated
            // tolerance) and atan2 turns the sign of a zero into +-pi
            3 | 4 if call => ctx.add(na, nb).unwrap(),
            5 => {
                linear = false;
                ctx.atan2(na, nb).unwrap()
            }
            3 => {
                linear = false;
                ctx.min(na, nb).unwrap()
            }
            4 => {
                linear = false;
                ctx.max(na, nb).unwrap()
            }
            _ => ctx.add(na, nb).unwrap(),
        };
        pool.push(n);
    }
    let mut root = pool[0];
    if !linear && has_call(case) {
        // every variable is used once more after the rest of the expression, so
        // that all of them are live across the calls (register pressure in
        // native code: a mix-up between two variables' registers shows up)
        for (i, v) in vars.iter().enumerate() {
            let n = ctx.var(*v);
            let t = ctx.mul(n, 0.5 + i as f32).unwrap();
            root = ctx.add(root, t).unwrap();
        }
    }
    (ctx, root, vars, linear)
}

fn matrix(case: &Case) -> Option<Matrix4<f32>> {
    if case.xform == 0 {
        return None;
    }
    let q = |k: usize| {
        // entries in {0, +-0.5, +-1, +-2}
        match case.mat[k % case.mat.len()].rem_euclid(7) {
            0 => 0.0,
            1 => 0.5,
            2 => -0.5,
            3 => 1.0,
            4 => -1.0,
            5 => 2.0,
            _ => -2.0,
        }
    };
    let t = |k: usize| case.mat[(12 + k) % case.mat.len()] as f32 / 4.0;
    let w = if case.xform == 2 {
        // also homogeneous coordinates far below f32::EPSILON (a scale kept
        // in the last entry): dividing by a power of two is still exact
        [0.5, 2.0, 4.0, 0.25, 5.9604645e-8, 9.313226e-10][case.mat[0].rem_euclid(6) as usize]
    } else {
        1.0
    };
    // general bottom row: |p x + q y + r z| <= 3 * 3.5 / 8 < 2 <= w on every sample and box
    let b = |k: usize| {
        if case.xform == 3 {
            [0.0, 0.0625, -0.0625, 0.125, -0.125][case.mat[(9 + k) % case.mat.len()].rem_euclid(5) as usize]
        } else {
            0.0
        }
    };
    let w = if case.xform == 3 {
        [2.0, 4.0][case.mat[0].rem_euclid(2) as usize]
    } else {
        w
    };
    Some(Matrix4::new(
        q(0), q(1), q(2), t(0), //
        q(3), q(4), q(5), t(1), //
        q(6), q(7), q(8), t(2), //
        b(0), b(1), b(2), w,
    ))
}

fn run<F: MathFunction>(case: &Case, cx: &mut Cx) -> CheckResult {
    let (ctx, root, vars, linear) = build(case);
    let shape = Shape::<F>::new(&ctx, root).unwrap();
    let mat = matrix(case);
    let nvars = vars.len();
    let free: Vec<Var> = vars.iter().filter(|v| v.index().is_some()).cloned().collect();

    // the values of the free variables
    let value_of = |s: &Vec<i8>, i: usize| s[i % s.len()] as f32 / 4.0;
    let sample0 = &case.samples[0];
    let mut sv: ShapeVars<f32> = ShapeVars::new();
    // insertion order + unrelated extras
    let mut order: Vec<usize> = (0..free.len()).collect();
    for (k, s) in case.insert_order.iter().enumerate() {
        if !order.is_empty() {
            let j = sel_index(*s, order.len());
            let n = order.len();
            order.swap(k % n, j);
        }
    }
    for e in 0..case.extras {
        sv.insert(var_v(90_000 + e as u64).index().unwrap(), 1234.5);
    }
    for j in &order {
        sv.insert(free[*j].index().unwrap(), value_of(sample0, 3 + *j));
    }
    // expected value at (x, y, z) with free variables from sample s
    let expect = |x: f32, y: f32, z: f32, s: &Vec<i8>| -> f32 {
        let (tx, ty, tz) = match &mat {
            None => (x, y, z),
            Some(m) => {
                // numerator and denominator are exact in f32 and f64 for these
                // dyadic entries; one correctly rounded division (double rounding
                // through f64 is innocuous for a quotient of two f32 values)
                let row = |i: usize| {
                    m[(i, 0)] as f64 * x as f64
                        + m[(i, 1)] as f64 * y as f64
                        + m[(i, 2)] as f64 * z as f64
                        + m[(i, 3)] as f64
                };
                let r = |i: usize| row(i) / row(3);
                (r(0) as f32, r(1) as f32, r(2) as f32)
            }
        };
        let mut m: HashMap<Var, f32> = HashMap::new();
        m.insert(Var::X, tx);
        m.insert(Var::Y, ty);
        m.insert(Var::Z, tz);
        for (j, v) in free.iter().enumerate() {
            m.insert(*v, value_of(s, 3 + j));
        }
        ctx.eval(root, &m).unwrap()
    };

    let pt = shape.ez_point_tape();
    let ft = shape.ez_float_slice_tape();
    let it = shape.ez_interval_tape();
    let gt = shape.ez_grad_slice_tape();
    let mut pe = Shape::<F>::new_point_eval();
    let mut fe = Shape::<F>::new_float_slice_eval();
    let mut ie = Shape::<F>::new_interval_eval();
    let mut ge = Shape::<F>::new_grad_slice_eval();

    let xyz = |s: &Vec<i8>| (value_of(s, 0), value_of(s, 1), value_of(s, 2));
    // ---- point evaluation through every entry point
    for s in &case.samples {
        let (x, y, z) = xyz(s);
        let want = expect(x, y, z, sample0);
        let got = match (&mat, free.is_empty()) {
            (None, true) => pe.eval(&pt, x, y, z),
            (Some(m), true) => pe.eval_with_transform(&pt, x, y, z, m),
            (None, false) => pe.eval_with_vars(&pt, x, y, z, &sv),
            (Some(m), false) => pe.eval_with_transform_and_vars(&pt, x, y, z, m, &sv),
        }
        .map_err(|e| Fail::new("point-eval-error", format!("{e:?}")))?
        .0;
        cx.ev.count("point_comparisons");
        ensure!(
            got == want,
            "point-binding",
            "point eval at ({x}, {y}, {z}) gives {got}, expected {want}"
        );
        let got = pe
            .eval_raw(&pt, x, y, z, mat.as_ref(), &sv)
            .map_err(|e| Fail::new("point-eval-error", format!("{e:?}")))?
            .0;
        ensure!(got == want, "point-binding", "eval_raw gives {got}, expected {want}");
    }
    // ---- many-point: scalar variables
    let xs: Vec<f32> = case.samples.iter().map(|s| xyz(s).0).collect();
    let ys: Vec<f32> = case.samples.iter().map(|s| xyz(s).1).collect();
    let zs: Vec<f32> = case.samples.iter().map(|s| xyz(s).2).collect();
    {
        let out = match &mat {
            None => fe.eval_with_vars(&ft, &xs, &ys, &zs, &sv),
            Some(m) => fe.eval_with_transform_and_vars(&ft, &xs, &ys, &zs, m, &sv),
        }
        .map_err(|e| Fail::new("bulk-eval-error", format!("{e:?}")))?;
        ensure!(out.len() == xs.len(), "bulk-len", "{} results for {} samples", out.len(), xs.len());
        for (i, s) in case.samples.iter().enumerate() {
            let (x, y, z) = xyz(s);
            let want = expect(x, y, z, sample0);
            cx.ev.count("bulk_comparisons");
            ensure!(
                out[i] == want,
                "bulk-binding",
                "bulk eval sample {i} gives {}, expected {want}",
                out[i]
            );
        }
    }
    // ---- many-point: per-sample variable arrays
    if !free.is_empty() {
        let mut arrays: ShapeVars<Vec<f32>> = ShapeVars::new();
        for e in 0..case.extras {
            arrays.insert(var_v(90_000 + e as u64).index().unwrap(), vec![7.0; 2]); // wrong length, but unused
        }
        for j in &order {
            arrays.insert(
                free[*j].index().unwrap(),
                case.samples.iter().map(|s| value_of(s, 3 + *j)).collect(),
            );
        }
        let out = match &mat {
            None => fe.eval_with_var_arrays(&ft, &xs, &ys, &zs, &arrays),
            Some(m) => fe.eval_with_transform_and_var_arrays(&ft, &xs, &ys, &zs, m, &arrays),
        }
        .map_err(|e| Fail::new("bulk-eval-error", format!("{e:?}")))?;
        for (i, s) in case.samples.iter().enumerate() {
            let (x, y, z) = xyz(s);
            let want = expect(x, y, z, s);
            cx.ev.count("bulk_array_comparisons");
            ensure!(
                out[i] == want,
                "bulk-array-binding",
                "bulk eval with variable arrays, sample {i}: {} expected {want}",
                out[i]
            );
        }
        // a needed array of the wrong length is an error
        let j = sel_index(case.missing, free.len());
        let mut bad: ShapeVars<Vec<f32>> = ShapeVars::new();
        for (k, v) in free.iter().enumerate() {
            let n = if k == j { xs.len() + 1 } else { xs.len() };
            bad.insert(v.index().unwrap(), vec![0.5; n]);
        }
        let r = fe.eval_with_var_arrays(&ft, &xs, &ys, &zs, &bad);
        ensure!(
            matches!(r, Err(ShapeBulkEvalError::MismatchedVarSlices { .. })),
            "mismatched-array-accepted",
            "variable array of the wrong length: {:?}",
            r.map(|o| o.len())
        );
        // ... also when it is too short, or empty
        if !xs.is_empty() {
            for short in [xs.len() - 1, 0] {
                let mut bad: ShapeVars<Vec<f32>> = ShapeVars::new();
                for (k, v) in free.iter().enumerate() {
                    let n = if k == j { short } else { xs.len() };
                    bad.insert(v.index().unwrap(), vec![0.5; n]);
                }
                let r = fe.eval_with_var_arrays(&ft, &xs, &ys, &zs, &bad);
                ensure!(
                    matches!(r, Err(ShapeBulkEvalError::MismatchedVarSlices { .. })),
                    "mismatched-array-accepted",
                    "variable array of {short} values for {} samples: {:?}",
                    xs.len(),
                    r.map(|o| o.len())
                );
            }
        }
        // a missing needed variable is an error naming that variable
        let mut missing: ShapeVars<f32> = ShapeVars::new();
        for (k, v) in free.iter().enumerate() {
            if k != j {
                missing.insert(v.index().unwrap(), 0.5);
            }
        }
        let want_var = free[j].index().unwrap();
        match pe.eval_with_vars(&pt, 0.0, 0.0, 0.0, &missing) {
            Err(ShapeTracingEvalError::MissingVar(m)) => ensure!(
                m.var == want_var,
                "missing-var-wrong",
                "reported {:?}, the missing one is {:?}",
                m.var,
                want_var
            ),
            Ok(v) => fail!("missing-var-accepted", "point eval returned {} with a variable missing", v.0),
        }
        match fe.eval_with_vars(&ft, &xs, &ys, &zs, &missing) {
            Err(ShapeBulkEvalError::MissingVar(m)) => ensure!(
                m.var == want_var,
                "missing-var-wrong",
                "bulk: reported {:?}, the missing one is {:?}",
                m.var,
                want_var
            ),
            other => fail!("missing-var-accepted", "bulk eval: {:?}", other.map(|o| o.len())),
        }
        // the same through the binding entry points (what the renderers and the
        // mesher take): check / bind / BoundShape::new
        match missing.check(&shape) {
            Err(m) => ensure!(m.var == want_var, "missing-var-wrong", "check: reported {:?}, the missing one is {:?}", m.var, want_var),
            Ok(()) => fail!("missing-var-accepted", "ShapeVars::check accepted a map with a needed variable missing"),
        }
        match shape.bind(&missing) {
            Err(m) => ensure!(m.var == want_var, "missing-var-wrong", "bind: reported {:?}, the missing one is {:?}", m.var, want_var),
            Ok(_) => fail!("missing-var-accepted", "Shape::bind accepted a map with a needed variable missing"),
        }
        ensure!(
            sv.check(&shape).is_ok() && shape.bind(&sv).is_ok(),
            "complete-vars-rejected",
            "check / bind rejected a complete variable map (with extras)"
        );
        cx.ev.count("missing_and_mismatch_cases");
        // ---- a history on ONE bulk evaluator: per-sample variable arrays
        // whose first and last elements coincide (the first sample repeated at
        // the end), then fixed values equal to exactly those elements.  The
        // evaluator's scratch columns still hold the per-sample data; the
        // fixed values must replace all of it.
        if case.samples.len() >= 2 {
            let mut ss: Vec<&Vec<i8>> = case.samples.iter().collect();
            ss.push(&case.samples[0]);
            let xs2: Vec<f32> = ss.iter().map(|s| xyz(s).0).collect();
            let ys2: Vec<f32> = ss.iter().map(|s| xyz(s).1).collect();
            let zs2: Vec<f32> = ss.iter().map(|s| xyz(s).2).collect();
            let mut arrays2: ShapeVars<Vec<f32>> = ShapeVars::new();
            for j in &order {
                arrays2.insert(
                    free[*j].index().unwrap(),
                    ss.iter().map(|s| value_of(s, 3 + *j)).collect(),
                );
            }
            let out = match &mat {
                None => fe.eval_with_var_arrays(&ft, &xs2, &ys2, &zs2, &arrays2),
                Some(m) => fe.eval_with_transform_and_var_arrays(&ft, &xs2, &ys2, &zs2, m, &arrays2),
            }
            .map_err(|e| Fail::new("bulk-eval-error", format!("{e:?}")))?
            .to_vec();
            for (i, s) in ss.iter().enumerate() {
                let (x, y, z) = xyz(s);
                ensure!(
                    out[i] == expect(x, y, z, s),
                    "bulk-array-binding",
                    "bulk eval with variable arrays (first sample repeated last), sample {i}: {} expected {}",
                    out[i],
                    expect(x, y, z, s)
                );
            }
            let out = match &mat {
                None => fe.eval_with_vars(&ft, &xs2, &ys2, &zs2, &sv),
                Some(m) => fe.eval_with_transform_and_vars(&ft, &xs2, &ys2, &zs2, m, &sv),
            }
            .map_err(|e| Fail::new("bulk-eval-error", format!("{e:?}")))?;
            for (i, s) in ss.iter().enumerate() {
                let (x, y, z) = xyz(s);
                let want = expect(x, y, z, sample0);
                cx.ev.count("bulk_fixed_after_arrays_comparisons");
                ensure!(
                    out[i] == want,
                    "bulk-binding",
                    "fixed variable values after per-sample arrays on the same evaluator, sample {i}: {} expected {want}",
                    out[i]
                );
            }
            // the same history on the gradient evaluator (values only)
            let g = |v: &Vec<f32>| -> Vec<Grad> { v.iter().map(|x| Grad::from(*x)).collect() };
            let (gx, gy, gz) = (g(&xs2), g(&ys2), g(&zs2));
            let _ = match &mat {
                None => ge.eval_with_var_arrays(&gt, &gx, &gy, &gz, &arrays2),
                Some(m) => ge.eval_with_transform_and_var_arrays(&gt, &gx, &gy, &gz, m, &arrays2),
            }
            .map_err(|e| Fail::new("grad-eval-error", format!("{e:?}")))?;
            let out = match &mat {
                None => ge.eval_with_vars(&gt, &gx, &gy, &gz, &sv),
                Some(m) => ge.eval_with_transform_and_vars(&gt, &gx, &gy, &gz, m, &sv),
            }
            .map_err(|e| Fail::new("grad-eval-error", format!("{e:?}")))?;
            for (i, s) in ss.iter().enumerate() {
                let (x, y, z) = xyz(s);
                let want = expect(x, y, z, sample0);
                ensure!(
                    out[i].v == want,
                    "grad-binding",
                    "gradient evaluator, fixed variable values after per-sample arrays, sample {i}: {} expected {want}",
                    out[i].v
                );
            }
        }
    }
    // ---- interval: the box around each sample must contain the value
    // (not demanded of functions with atan2: C03 excludes atan2(0, 0))
    for s in case.samples.iter().filter(|_| !has_call(case)) {
        let (x, y, z) = xyz(s);
        let b = |v: f32| Interval::new(v - 0.25, v + 0.5);
        let r = match &mat {
            None => ie.eval_with_vars(&it, b(x), b(y), b(z), &sv),
            Some(m) => ie.eval_with_transform_and_vars(&it, b(x), b(y), b(z), m, &sv),
        }
        .map_err(|e| Fail::new("interval-eval-error", format!("{e:?}")))?
        .0;
        let want = expect(x, y, z, sample0);
        cx.ev.count("interval_comparisons");
        ensure!(
            r.has_nan() || (r.lower() <= want && want <= r.upper()),
            "interval-binding",
            "interval [{}, {}] does not contain {want}",
            r.lower(),
            r.upper()
        );
    }
    // ---- gradient (value always; derivative for purely linear functions)
    {
        let gx: Vec<Grad> = xs.iter().map(|v| Grad::new(*v, 1.0, 0.0, 0.0)).collect();
        let gy: Vec<Grad> = ys.iter().map(|v| Grad::new(*v, 0.0, 1.0, 0.0)).collect();
        let gz: Vec<Grad> = zs.iter().map(|v| Grad::new(*v, 0.0, 0.0, 1.0)).collect();
        let out = match &mat {
            None => ge.eval_with_vars(&gt, &gx, &gy, &gz, &sv),
            Some(m) => ge.eval_with_transform_and_vars(&gt, &gx, &gy, &gz, m, &sv),
        }
        .map_err(|e| Fail::new("grad-eval-error", format!("{e:?}")))?;
        for (i, s) in case.samples.iter().enumerate() {
            let (x, y, z) = xyz(s);
            let want = expect(x, y, z, sample0);
            cx.ev.count("grad_comparisons");
            ensure!(
                out[i].v == want,
                "grad-binding",
                "gradient eval value {} expected {want}",
                out[i].v
            );
            if linear {
                // model_r = num_r / den, so d model_r / d(world axis a)
                //   = (M[r][a] * den - num_r * M[3][a]) / den^2
                let m = mat.unwrap_or(Matrix4::identity());
                let row = |i: usize| {
                    m[(i, 0)] as f64 * x as f64
                        + m[(i, 1)] as f64 * y as f64
                        + m[(i, 2)] as f64 * z as f64
                        + m[(i, 3)] as f64
                };
                let den = row(3);
                let mut k = 0;
                let mut c = [0.0f64; 3];
                for a in 0..3 {
                    if case.axes[a] {
                        c[a] = ctx_coeff(case, k);
                        k += 1;
                    }
                }
                for a in 0..3 {
                    let terms: Vec<f64> = (0..3)
                        .map(|r| c[r] * (m[(r, a)] as f64 * den - row(r) * m[(3, a)] as f64) / (den * den))
                        .collect();
                    let want_d: f64 = terms.iter().sum();
                    let scale: f64 = (0..3)
                        .map(|r| {
                            c[r].abs() * ((m[(r, a)] as f64 * den).abs() + (row(r) * m[(3, a)] as f64).abs()) / (den * den)
                        })
                        .sum();
                    if m[(3, a)] != 0.0 {
                        cx.ev.count("grad_projective_partials");
                    }
                    ensure!(
                        (out[i].d(a) as f64 - want_d).abs() <= 1e-4 * (1.0 + scale),
                        "grad-transform",
                        "partial {a}: {} expected {want_d}",
                        out[i].d(a)
                    );
                }
            }
        }
    }
    // ---- simplification keeps the numbering
    if !linear {
        let s = &case.samples[0];
        let (x, y, z) = xyz(s);
        let tr = pe
            .eval_raw(&pt, x, y, z, mat.as_ref(), &sv)
            .map_err(|e| Fail::new("point-eval-error", format!("{e:?}")))?
            .1
            .cloned();
        if let Some(tr) = tr {
            let child = shape
                .ez_simplify(&tr)
                .map_err(|e| Fail::new("simplify-error", format!("{e:?}")))?;
            for (v, i) in child.inner().vars().iter() {
                ensure!(
                    shape.inner().vars().get(&v) == Some(i),
                    "child-renumbered",
                    "child maps {v:?} to {i}, parent to {:?}",
                    shape.inner().vars().get(&v)
                );
            }
            let cpt = child.ez_point_tape();
            let got = pe
                .eval_raw(&cpt, x, y, z, mat.as_ref(), &sv)
                .map_err(|e| Fail::new("point-eval-error", format!("{e:?}")))?
                .0;
            let want = expect(x, y, z, sample0);
            cx.ev.count("simplified_comparisons");
            ensure!(
                got == want,
                "child-binding",
                "simplified shape gives {got} at the traced point, expected {want}"
            );
            // the same simplification into storage recycled from a DIFFERENT
            // shape (a storage pool shared between shapes): a donor over the
            // same variables met in the opposite order plus one of its own
            {
                let mut dctx = fidget_core::Context::new();
                let mut acc = dctx.var(var_v(91_000));
                for v in free.iter().rev() {
                    let n = dctx.var(*v);
                    acc = dctx.add(acc, n).unwrap();
                }
                for a in [Var::Z, Var::Y] {
                    let n = dctx.var(a);
                    acc = dctx.add(acc, n).unwrap();
                }
                let donor = Shape::<F>::new(&dctx, acc).unwrap();
                let storage = donor.recycle().unwrap_or_default();
                let mut ws = Default::default();
                let child2 = shape
                    .simplify(&tr, storage, &mut ws)
                    .map_err(|e| Fail::new("simplify-error", format!("{e:?}")))?;
                ensure!(
                    child2.inner().vars().len() == child.inner().vars().len()
                        && child2
                            .inner()
                            .vars()
                            .iter()
                            .all(|(v, i)| shape.inner().vars().get(&v) == Some(i)),
                    "child-renumbered",
                    "simplified into storage recycled from another shape: the child's variable map differs from its parent's"
                );
                let cpt2 = child2.ez_point_tape();
                let got = pe
                    .eval_raw(&cpt2, x, y, z, mat.as_ref(), &sv)
                    .map_err(|e| Fail::new("point-eval-error", format!("{e:?}")))?
                    .0;
                cx.ev.count("simplified_into_foreign_storage_comparisons");
                ensure!(
                    got == want,
                    "child-binding",
                    "simplified into storage recycled from another shape: {got} at the traced point, expected {want}"
                );
            }
        }
    }
    // non-trivial: >= 3 free variables whose slot order differs from their index order
    let vm = shape.inner().vars();
    let slots: Vec<usize> = free.iter().filter_map(|v| vm.get(v)).collect();
    if free.len() >= 3 && slots.windows(2).any(|w| w[0] > w[1]) {
        cx.ev.nontrivial(case);
    }
    cx.ev.count(&format!("nvars_{}", nvars.min(35) / 5 * 5));
    Ok(())
}

fn ctx_coeff(case: &Case, i: usize) -> f64 {
    let k = case.coeff[i % case.coeff.len()];
    ((i as f32 + 1.0) * 0.125 * if k < 0 { -1.0 } else { 1.0 } + (k as f32) * 8.0) as f64
}

impl Prop for P {
    const ID: &'static str = "C14";
    type Case = Case;

    fn strategy(_tier: Tier) -> BoxedStrategy<Case> {
        (
            (any::<bool>(), any::<bool>(), any::<bool>()),
            prop_oneof![2 => 0u8..=4, 2 => 3u8..=12, 1 => 12u8..=32],
            vec(-3i8..=3, 36..=36),
            vec((any::<u16>(), any::<u16>(), prop_oneof![10 => 0u8..5, 1 => Just(5u8)]), 8..=40),
            vec(vec(-12i8..=12, 36..=36), 1..=9),
            0u8..=3,
            vec(any::<i8>(), 16..=16),
            vec(any::<u16>(), 0..=40),
            (0u8..=3, any::<u16>(), any::<bool>()),
        )
            .prop_map(
                |(axes, nfree, coeff, combine, samples, xform, mat, insert_order, (extras, missing, jit))| Case {
                    axes: [axes.0, axes.1, axes.2],
                    nfree,
                    coeff,
                    combine,
                    samples,
                    xform,
                    mat,
                    insert_order,
                    extras,
                    missing,
                    jit,
                },
            )
            .boxed()
    }

    fn check(case: &Case, cx: &mut Cx) -> CheckResult {
        if case.jit {
            run::<JitFunction>(case, cx)
        } else {
            run::<VmFunction>(case, cx)
        }
    }

    fn plan(tier: Tier) -> Plan {
        match tier {
            Tier::Quick => Plan {
                workers: 16,
                cases_per_worker: 15000,
                timeout_s: 1800,
                max_shrink_iters: 3000,
            },
            Tier::Thorough => Plan {
                workers: 16,
                cases_per_worker: 600000,
                timeout_s: 14400,
                max_shrink_iters: 3000,
            },
        }
    }

    fn rule() -> &'static str {
        "generated functions: every variable of a subset of {x, y, z} plus 0-32 free variables multiplied by its own \
         distinct dyadic coefficient and combined in a generated order by add / min / max (the traversal, hence slot, order \
         is randomised); ShapeVars filled in a generated order plus unrelated extras; transform none / affine / projective \
         (uniform w incl. 2^-24 and 2^-30, or a general bottom row with a positive denominator) with dyadic entries; a variable array that is too long, too short or empty is an error; a missing variable is reported by identity by the evaluators and by ShapeVars::check / Shape::bind; 1-9 samples; interpreter or JIT. Oracle: Context::eval with an explicit map whose \
         X, Y, Z are the exactly transformed position and each free variable its own value, compared with == through \
         every entry point (eval, eval_with_transform, eval_with_vars, eval_with_transform_and_vars, eval_raw, bulk with \
         scalar variables and with per-sample arrays), interval results must contain it, gradient value equals it and, \
         for purely additive functions, the partials equal the coefficient-weighted derivative of the projective map (quotient rule); a missing variable must \
         be reported by identity, a needed array of the wrong length is an error, extras are ignored; after simplification \
         the child keeps the numbering and the value at the traced point. Non-trivial = at least 3 free variables whose \
         slot order differs from their index order."
    }
}
