//! C18 — view manipulation keeps the grabbed point under the cursor
use crate::engine::*;
use crate::{ensure, fail};
use fidget_core::render::{ImageSize, VoxelSize};
use fidget_gui::{Canvas2, Canvas3, CursorState, DragMode, View2, View3};
use nalgebra::{Matrix3, Matrix4, Point2, Point3, Unit, Vector3};
use proptest::collection::vec;
use proptest::prelude::*;
use serde::{Deserialize, Serialize};

#[derive(Clone, Debug, Serialize, Deserialize)]
pub enum Op {
    /// cursor: None or (x, y, drag) with drag 0 = none, 1 = pan, 2 = rotate (3D)
    Interact { size: (u32, u32, u32), cursor: Option<(i32, i32, u8)>, scroll: i32 },
    BeginDrag { x: i32, y: i32, rotate: bool },
    Drag { x: i32, y: i32 },
    EndDrag,
    Zoom { scroll: i32, at: Option<(i32, i32)> },
    Resize { size: (u32, u32, u32) },
}

#[derive(Clone, Debug, Serialize, Deserialize)]
pub struct Case {
    pub three_d: bool,
    pub size: (u32, u32, u32),
    pub ops: Vec<Op>,
}

const LANDMARK: i32 = 1_000_000;

pub struct P;

#[derive(Clone, Copy)]
struct DragModel {
    rotate: bool,
    /// model-space point grabbed at begin_drag
    grabbed: [f64; 3],
    scale: f32,
    size: (u32, u32, u32),
    yaw_pitch: (f32, f32),
    center: [f32; 3],
}

fn scale_ok(s: f32) -> bool {
    s.is_finite() && s > 1e-20 && s < 1e20
}

/// The scroll amount an encoded value stands for: |v| <= 1_000_000 is the
/// amount itself; 2_000_000 + k is k / 16 (fractional amounts); 3_000_000 + k
/// is k * 1e-7 and 4_000_000 + k is k * 1e-42 (tiny and subnormal amounts: the
/// zoom factor 2^(a/100) rounds to exactly 1, so the view cannot change)
fn sv(scroll: i32) -> f32 {
    match scroll {
        1_500_000..=2_500_000 => (scroll - 2_000_000) as f32 / 16.0,
        2_500_001..=3_500_000 => (scroll - 3_000_000) as f32 * 1e-7,
        3_500_001..=4_500_000 => (scroll - 4_000_000) as f32 * 1e-42,
        _ => scroll as f32,
    }
}

fn scroll_factor(scroll: i32) -> f32 {
    (sv(scroll) / 100.0).exp2()
}

// ---------------------------------------------------------------- 2D

fn w2m2(v: &View2) -> Matrix3<f32> {
    let (c, s) = v.components();
    Matrix3::new_translation(&c) * Matrix3::new_scaling(s)
}

fn check_matrix2(v: &View2) -> CheckResult {
    let a = v.world_to_model();
    let b = w2m2(v);
    let n = a.norm().max(1.0);
    ensure!(
        (a - b).norm() <= 1e-5 * n,
        "matrix-2d",
        "world_to_model {a:?} != translate*scale of components {b:?}"
    );
    Ok(())
}

fn run2(case: &Case, cx: &mut Cx) -> CheckResult {
    let mut size = ImageSize::new(case.size.0, case.size.1);
    let mut size_t = case.size;
    let mut c = Canvas2::new(size);
    let mut drag: Option<DragModel> = None;
    let mut zoom_during_drag = false;
    let mut repeated_drag_pos = false;
    let mut last_drag_pos: Option<(i32, i32)> = None;
    for (step, op) in case.ops.iter().enumerate() {
        let before = c.view();
        let world = |sz: ImageSize, x: i32, y: i32| sz.transform_point(Point2::new(x, y));
        let mut changed: Option<bool> = None;
        // sub-operations in the order the canvas performs them
        let do_begin = |c: &mut Canvas2, drag: &mut Option<DragModel>, x: i32, y: i32, sz: ImageSize, szt| {
            if drag.is_none() {
                let v = c.view();
                let g = v.world_to_model().transform_point(&world(sz, x, y));
                let (cen, s) = v.components();
                *drag = Some(DragModel {
                    rotate: false,
                    grabbed: [g.x as f64, g.y as f64, 0.0],
                    scale: s,
                    size: szt,
                    yaw_pitch: (0.0, 0.0),
                    center: [cen.x, cen.y, 0.0],
                });
            }
            c.begin_drag(Point2::new(x, y));
        };
        let check_pan = |c: &Canvas2, d: &DragModel, x: i32, y: i32, sz: ImageSize, szt, cx: &mut Cx| -> CheckResult {
            let (_, s) = c.view().components();
            if s.to_bits() != d.scale.to_bits() || szt != d.size {
                cx.ev.count("pan_invariant_not_applicable_scale_or_size_changed");
                return Ok(());
            }
            let pw = world(sz, x, y);
            let now = c.view().world_to_model().transform_point(&pw);
            let (cen, _) = c.view().components();
            let tol = 2e-5 * (cen.norm() as f64 + (s * pw.coords.norm()) as f64 + d.grabbed[0].abs() + d.grabbed[1].abs() + 1e-30)
                + 2e-5 * (d.center[0].abs() + d.center[1].abs()) as f64;
            cx.ev.count("pan_invariant_checks");
            let err = ((now.x as f64 - d.grabbed[0]).powi(2) + (now.y as f64 - d.grabbed[1]).powi(2)).sqrt();
            if !(err <= tol) {
                fail!(
                    "pan-grabbed-point",
                    "step {step}: while panning, the model point under the cursor is ({}, {}) but ({}, {}) was grabbed (error {err:e}, tol {tol:e})",
                    now.x,
                    now.y,
                    d.grabbed[0],
                    d.grabbed[1]
                );
            }
            Ok(())
        };
        let do_zoom = |c: &mut Canvas2, scroll: i32, at: Option<(i32, i32)>, sz: ImageSize, cx: &mut Cx| -> Result<Option<bool>, Fail> {
            let (_, s) = c.view().components();
            if !scale_ok(s * scroll_factor(scroll)) || !scale_ok(s) {
                cx.ev.count("zoom_rejected_scale_leaves_domain");
                return Ok(None);
            }
            let before_pt = at.map(|(x, y)| {
                let pw = world(sz, x, y);
                (pw, c.view().world_to_model().transform_point(&pw))
            });
            let (c0, s0) = c.view().components();
            let ch = c.zoom(sv(scroll), at.map(|(x, y)| Point2::new(x, y)));
            if let Some((pw, b)) = before_pt {
                let a = c.view().world_to_model().transform_point(&pw);
                let (c1, s1) = c.view().components();
                let tol = 2e-5
                    * (c0.norm() + c1.norm() + (s0 + s1) * pw.coords.norm() + 1e-30) as f64;
                let err = (a - b).norm() as f64;
                cx.ev.count("zoom_invariant_checks");
                if !(err <= tol) {
                    fail!(
                        "zoom-about-cursor",
                        "step {step}: zooming by scroll {scroll} about a cursor moved the model point under it from {b:?} to {a:?} (error {err:e}, tol {tol:e})"
                    );
                }
            }
            Ok(Some(ch))
        };
        match op {
            Op::Resize { size: s } => {
                size = ImageSize::new(s.0, s.1);
                size_t = *s;
                c.resize(size);
            }
            Op::BeginDrag { x, y, .. } => do_begin(&mut c, &mut drag, *x, *y, size, size_t),
            Op::EndDrag => {
                c.end_drag();
                drag = None;
                last_drag_pos = None;
            }
            Op::Drag { x, y } => {
                let ch = c.drag(Point2::new(*x, *y));
                changed = Some(ch);
                if let Some(d) = &drag {
                    check_pan(&c, d, *x, *y, size, size_t, cx)?;
                    if last_drag_pos == Some((*x, *y)) {
                        repeated_drag_pos = true;
                    }
                    last_drag_pos = Some((*x, *y));
                } else {
                    ensure!(!ch, "drag-without-begin", "step {step}: drag without begin_drag reported a change");
                }
            }
            Op::Zoom { scroll, at } => {
                if drag.is_some() {
                    zoom_during_drag = true;
                }
                changed = do_zoom(&mut c, *scroll, *at, size, cx)?;
            }
            Op::Interact { size: s, cursor, scroll } => {
                let (_, sc) = c.view().components();
                if !scale_ok(sc * scroll_factor(*scroll)) {
                    cx.ev.count("zoom_rejected_scale_leaves_domain");
                    continue;
                }
                size = ImageSize::new(s.0, s.1);
                size_t = *s;
                // mirror the documented order: drag handling, then zoom
                let cs = cursor.map(|(x, y, d)| CursorState {
                    screen_pos: Point2::new(x, y),
                    drag: d != 0,
                });
                match cursor {
                    Some((x, y, d)) if *d != 0 => {
                        if drag.is_none() {
                            let v = c.view();
                            let g = v.world_to_model().transform_point(&world(size, *x, *y));
                            let (cen, s0) = v.components();
                            drag = Some(DragModel {
                                rotate: false,
                                grabbed: [g.x as f64, g.y as f64, 0.0],
                                scale: s0,
                                size: size_t,
                                yaw_pitch: (0.0, 0.0),
                                center: [cen.x, cen.y, 0.0],
                            });
                        }
                    }
                    _ => {
                        drag = None;
                        last_drag_pos = None;
                    }
                }
                if drag.is_some() && sv(*scroll) != 0.0 {
                    zoom_during_drag = true;
                }
                let ch = c.interact(size, cs, sv(*scroll));
                changed = Some(ch);
                if sv(*scroll) == 0.0 {
                    if let (Some(d), Some((x, y, _))) = (&drag, cursor) {
                        check_pan(&c, d, *x, *y, size, size_t, cx)?;
                    }
                }
            }
        }
        let after = c.view();
        check_matrix2(&after)?;
        if let Some(ch) = changed {
            let (c0, s0) = before.components();
            let (c1, s1) = after.components();
            let same = c0.x.to_bits() == c1.x.to_bits()
                && c0.y.to_bits() == c1.y.to_bits()
                && s0.to_bits() == s1.to_bits();
            cx.ev.count("changed_flag_checks");
            if same {
                cx.ev.count("steps_with_identical_view");
                ensure!(
                    !ch,
                    "changed-flag",
                    "step {step} ({op:?}): the view is bit-identical to before but 'changed' is true"
                );
            }
        }
    }
    if zoom_during_drag && repeated_drag_pos {
        cx.ev.nontrivial(case);
    }
    Ok(())
}

// ---------------------------------------------------------------- 3D

fn w2m3(v: &View3) -> Matrix4<f32> {
    let (c, s, yaw, pitch) = v.components();
    Matrix4::new_translation(&c)
        * (Matrix4::from_axis_angle(&Unit::new_normalize(Vector3::new(0.0, 0.0, 1.0)), yaw)
            * Matrix4::from_axis_angle(&Unit::new_normalize(Vector3::new(1.0, 0.0, 0.0)), pitch))
        * Matrix4::new_scaling(s)
}

fn run3(case: &Case, cx: &mut Cx) -> CheckResult {
    let mk = |s: (u32, u32, u32)| VoxelSize::new(s.0, s.1, s.2);
    let mut size = mk(case.size);
    let mut size_t = case.size;
    let mut c = Canvas3::new(size);
    let mut drag: Option<DragModel> = None;
    let mut zoom_during_drag = false;
    let mut repeated_drag_pos = false;
    let mut last_drag_pos: Option<(i32, i32)> = None;
    let world = |sz: VoxelSize, x: i32, y: i32| sz.transform_point(Point3::new(x, y, 0));
    for (step, op) in case.ops.iter().enumerate() {
        let before = c.view();
        let mut changed: Option<bool> = None;
        let begin = |c: &Canvas3, x: i32, y: i32, rotate: bool, sz: VoxelSize, szt| -> DragModel {
            let v = c.view();
            let g = v.world_to_model().transform_point(&world(sz, x, y));
            let (cen, s, yaw, pitch) = v.components();
            DragModel {
                rotate,
                grabbed: [g.x as f64, g.y as f64, g.z as f64],
                scale: s,
                size: szt,
                yaw_pitch: (yaw, pitch),
                center: [cen.x, cen.y, cen.z],
            }
        };
        let check_drag = |c: &Canvas3, d: &DragModel, x: i32, y: i32, sz: VoxelSize, szt, cx: &mut Cx| -> CheckResult {
            let (cen, s, yaw, pitch) = c.view().components();
            if d.rotate {
                cx.ev.count("rotate_invariant_checks");
                let (bc, bs, _, _) = before.components();
                ensure!(
                    [cen.x, cen.y, cen.z].map(f32::to_bits) == [bc.x, bc.y, bc.z].map(f32::to_bits) && s.to_bits() == bs.to_bits(),
                    "rotate-moves-view",
                    "step {step}: a rotate drag changed centre or scale: {:?} {s} (was {:?} {})",
                    cen,
                    bc,
                    bs
                );
                ensure!(
                    (0.0..=std::f32::consts::PI).contains(&pitch) && yaw.abs() < std::f32::consts::TAU,
                    "rotate-range",
                    "step {step}: pitch {pitch} / yaw {yaw} out of range"
                );
                return Ok(());
            }
            if s.to_bits() != d.scale.to_bits() || szt != d.size || (yaw, pitch) != d.yaw_pitch {
                cx.ev.count("pan_invariant_not_applicable_scale_or_size_changed");
                return Ok(());
            }
            let pw = world(sz, x, y);
            let now = c.view().world_to_model().transform_point(&pw);
            let tol = 3e-5
                * (cen.norm() as f64
                    + (s * pw.coords.norm()) as f64
                    + d.grabbed.iter().map(|v| v.abs()).sum::<f64>()
                    + d.center.iter().map(|v| v.abs() as f64).sum::<f64>()
                    + 1e-30);
            let err = ((now.x as f64 - d.grabbed[0]).powi(2)
                + (now.y as f64 - d.grabbed[1]).powi(2)
                + (now.z as f64 - d.grabbed[2]).powi(2))
            .sqrt();
            cx.ev.count("pan_invariant_checks");
            if !(err <= tol) {
                fail!(
                    "pan-grabbed-point",
                    "step {step}: while panning (3D), the model point under the cursor is {now:?} but {:?} was grabbed (error {err:e}, tol {tol:e})",
                    d.grabbed
                );
            }
            Ok(())
        };
        let do_zoom = |c: &mut Canvas3, scroll: i32, at: Option<(i32, i32)>, sz: VoxelSize, cx: &mut Cx| -> Result<Option<bool>, Fail> {
            let (_, s, _, _) = c.view().components();
            if !scale_ok(s * scroll_factor(scroll)) || !scale_ok(s) {
                cx.ev.count("zoom_rejected_scale_leaves_domain");
                return Ok(None);
            }
            let bp = at.map(|(x, y)| {
                let pw = world(sz, x, y);
                (pw, c.view().world_to_model().transform_point(&pw))
            });
            let (c0, s0, _, _) = c.view().components();
            let ch = c.zoom(sv(scroll), at.map(|(x, y)| Point2::new(x, y)));
            if let Some((pw, b)) = bp {
                let a = c.view().world_to_model().transform_point(&pw);
                let (c1, s1, _, _) = c.view().components();
                let tol = 3e-5 * (c0.norm() + c1.norm() + (s0 + s1) * pw.coords.norm() + 1e-30) as f64;
                let err = (a - b).norm() as f64;
                cx.ev.count("zoom_invariant_checks");
                if !(err <= tol) {
                    fail!(
                        "zoom-about-cursor",
                        "step {step}: zooming (3D) by scroll {scroll} moved the model point under the cursor from {b:?} to {a:?} (error {err:e}, tol {tol:e})"
                    );
                }
            }
            Ok(Some(ch))
        };
        match op {
            Op::Resize { .. } => {
                // Canvas3 has no resize(); the size changes through interact
            }
            Op::BeginDrag { x, y, rotate } => {
                if drag.is_none() {
                    drag = Some(begin(&c, *x, *y, *rotate, size, size_t));
                }
                c.begin_drag(Point2::new(*x, *y), if *rotate { DragMode::Rotate } else { DragMode::Pan });
            }
            Op::EndDrag => {
                c.end_drag();
                drag = None;
                last_drag_pos = None;
            }
            Op::Drag { x, y } => {
                let ch = c.drag(Point2::new(*x, *y));
                changed = Some(ch);
                if let Some(d) = &drag {
                    check_drag(&c, d, *x, *y, size, size_t, cx)?;
                    if last_drag_pos == Some((*x, *y)) {
                        repeated_drag_pos = true;
                    }
                    last_drag_pos = Some((*x, *y));
                } else {
                    ensure!(!ch, "drag-without-begin", "step {step}: drag without begin_drag reported a change");
                }
            }
            Op::Zoom { scroll, at } => {
                if drag.is_some() {
                    zoom_during_drag = true;
                }
                changed = do_zoom(&mut c, *scroll, *at, size, cx)?;
            }
            Op::Interact { size: s, cursor, scroll } => {
                let (_, sc, _, _) = c.view().components();
                if !scale_ok(sc * scroll_factor(*scroll)) {
                    cx.ev.count("zoom_rejected_scale_leaves_domain");
                    continue;
                }
                size = mk(*s);
                size_t = *s;
                let cs = cursor.map(|(x, y, d)| CursorState {
                    screen_pos: Point2::new(x, y),
                    drag: match d {
                        0 => None,
                        1 => Some(DragMode::Pan),
                        _ => Some(DragMode::Rotate),
                    },
                });
                match cursor {
                    Some((x, y, d)) if *d != 0 => {
                        if drag.is_none() {
                            drag = Some(begin(&c, *x, *y, *d == 2, size, size_t));
                        }
                    }
                    _ => {
                        drag = None;
                        last_drag_pos = None;
                    }
                }
                if drag.is_some() && sv(*scroll) != 0.0 {
                    zoom_during_drag = true;
                }
                let ch = c.interact(size, cs, sv(*scroll));
                changed = Some(ch);
                if sv(*scroll) == 0.0 {
                    if let (Some(d), Some((x, y, _))) = (&drag, cursor) {
                        check_drag(&c, d, *x, *y, size, size_t, cx)?;
                    }
                }
            }
        }
        let after = c.view();
        // the matrix always equals translate * rotate * scale of the components
        {
            let a = after.world_to_model();
            let b = w2m3(&after);
            ensure!(
                (a - b).norm() <= 1e-5 * a.norm().max(1.0),
                "matrix-3d",
                "world_to_model {a:?} != translate*rotate*scale of components {b:?}"
            );
            let (_, _, yaw, pitch) = after.components();
            ensure!(
                (0.0..=std::f32::consts::PI).contains(&pitch) && yaw.abs() < std::f32::consts::TAU,
                "rotate-range",
                "step {step}: pitch {pitch} / yaw {yaw} out of range"
            );
        }
        if let Some(ch) = changed {
            let b = before.components();
            let a = after.components();
            let same = [b.0.x, b.0.y, b.0.z, b.1, b.2, b.3].map(f32::to_bits)
                == [a.0.x, a.0.y, a.0.z, a.1, a.2, a.3].map(f32::to_bits);
            cx.ev.count("changed_flag_checks");
            if same {
                cx.ev.count("steps_with_identical_view");
                ensure!(
                    !ch,
                    "changed-flag",
                    "step {step} ({op:?}): the view is bit-identical to before but 'changed' is true"
                );
            }
        }
    }
    if zoom_during_drag && repeated_drag_pos {
        cx.ev.nontrivial(case);
    }
    Ok(())
}

impl Prop for P {
    const ID: &'static str = "C18";
    type Case = Case;

    fn strategy(tier: Tier) -> BoxedStrategy<Case> {
        let size = || (1u32..=4096, 1u32..=4096, 1u32..=4096);
        let pos = || {
            prop_oneof![
                4 => (-200i32..=4300, -200i32..=4300),
                2 => (0i32..=64, 0i32..=64),
                1 => (-100_000i32..=100_000, -100_000i32..=100_000),
                // landmark of the current image (resolved below): centre pixel
                // and its neighbours, corners, one past the last pixel
                2 => (0i32..10).prop_map(|k| (LANDMARK + k, 0)),
            ]
        };
        let scroll = || {
            prop_oneof![
                6 => Just(0i32),
                8 => -300i32..=300,
                2 => -3000i32..=3000,
                2 => (-4000i32..=4000).prop_map(|k| 2_000_000 + k),
                2 => (-200i32..=200).prop_map(|k| 3_000_000 + k),
                1 => (-200i32..=200).prop_map(|k| 4_000_000 + k),
            ]
        };
        let op = prop_oneof![
            4 => (size(), prop::option::of((pos(), 0u8..3)), scroll(), any::<bool>()).prop_map(|(size, cur, scroll, keep)| Op::Interact {
                size: if keep { (0, 0, 0) } else { size },
                cursor: cur.map(|((x, y), d)| (x, y, d)),
                scroll,
            }),
            2 => (pos(), any::<bool>()).prop_map(|((x, y), rotate)| Op::BeginDrag { x, y, rotate }),
            5 => pos().prop_map(|(x, y)| Op::Drag { x, y }),
            1 => Just(Op::EndDrag),
            3 => (scroll(), prop::option::of(pos())).prop_map(|(scroll, at)| Op::Zoom { scroll, at }),
            1 => size().prop_map(|size| Op::Resize { size }),
        ];
        (any::<bool>(), size(), vec(op, 1..=tier.pick(30, 80)))
            .prop_map(|(three_d, size, mut ops)| {
                // Interact with size (0,0,0) means "keep the current size";
                // repeat some drag positions
                let mut cur = size;
                let mut last: Option<(i32, i32)> = None;
                let landmark = |x: &mut i32, y: &mut i32, cur: (u32, u32, u32)| {
                    if *x >= LANDMARK && *x < LANDMARK + 10 {
                        let (w, h) = (cur.0 as i32, cur.1 as i32);
                        let (lx, ly) = [
                            (w / 2, h / 2 - 1),
                            (w / 2, h / 2),
                            (w / 2 - 1, h / 2 - 1),
                            (w / 2 - 1, h / 2),
                            (0, 0),
                            (w - 1, h - 1),
                            (w, h),
                            (0, h - 1),
                            (w / 2, 0),
                            (0, h / 2 - 1),
                        ][(*x - LANDMARK) as usize];
                        *x = lx;
                        *y = ly;
                    }
                };
                for (i, o) in ops.iter_mut().enumerate() {
                    match o {
                        Op::Interact { size: s, cursor, .. } => {
                            if *s == (0, 0, 0) {
                                *s = cur;
                            } else {
                                cur = *s;
                            }
                            if let Some((x, y, _)) = cursor {
                                landmark(x, y, cur);
                            }
                        }
                        Op::BeginDrag { x, y, .. } => landmark(x, y, cur),
                        Op::Zoom { at: Some((x, y)), .. } => landmark(x, y, cur),
                        Op::Resize { size: s } => {
                            if !three_d {
                                cur = *s;
                            }
                        }
                        Op::Drag { x, y } => {
                            landmark(x, y, cur);
                            if i % 3 == 0 {
                                if let Some((lx, ly)) = last {
                                    *x = lx;
                                    *y = ly;
                                }
                            }
                            last = Some((*x, *y));
                        }
                        _ => {}
                    }
                }
                Case { three_d, size, ops }
            })
            .boxed()
    }

    fn check(case: &Case, cx: &mut Cx) -> CheckResult {
        if case.three_d {
            cx.ev.count("canvas3_histories");
            run3(case, cx)
        } else {
            cx.ev.count("canvas2_histories");
            run2(case, cx)
        }
    }

    fn reduce(case: &Case) -> Vec<Case> {
        (0..case.ops.len())
            .map(|k| {
                let mut c = case.clone();
                c.ops.remove(k);
                c
            })
            .collect()
    }

    fn plan(tier: Tier) -> Plan {
        match tier {
            Tier::Quick => Plan {
                workers: 16,
                cases_per_worker: 20000,
                timeout_s: 1800,
                max_shrink_iters: 3000,
            },
            Tier::Thorough => Plan {
                workers: 16,
                cases_per_worker: 700000,
                timeout_s: 14400,
                max_shrink_iters: 3000,
            },
        }
    }

    fn rule() -> &'static str {
        "generated histories (1-30 events, thorough 80) on Canvas2 or Canvas3: interact (new image size or the same, \
         cursor absent / hovering / dragging in pan or rotate mode, scroll), begin_drag, drag (every third drag repeats the \
         previous cursor position), end_drag, zoom with or without a cursor, resize; image sizes 1..4096 non-square; screen \
         positions inside and far outside the image; scroll amounts keeping the scale within 1e-20..1e20 (events that would \
         leave it are rejected and counted). A small model mirrors only whether a drag is active and what was grabbed. \
         Invariants after every step: zoom about a cursor leaves the model point under it unchanged; while a pan drag is \
         active and scale / image size / rotation are those of begin_drag, the grabbed model point stays under the cursor; \
         a rotate drag changes neither centre nor scale and keeps pitch in [0, pi], |yaw| < 2 pi; whenever the view is \
         bit-identical to before, the returned 'changed' flag is false; world_to_model() equals translate x rotate x scale \
         rebuilt from components(). Tolerances 2-3e-5 relative to |centre| + scale*|pos|. Non-trivial = the history has a \
         zoom during a drag and a drag with a repeated cursor position."
    }
}
