//! C20 — tracing and bulk results are well-formed records of the evaluation
use crate::build::*;
use crate::engine::*;
use crate::gens;
use crate::p03::{interval_strategy, sample_in};
use crate::spec::*;
use crate::ensure;
use fidget_core::compiler::RegOp;
use fidget_core::eval::{BulkEvaluator, Function, MathFunction, Tape, TracingEvaluator};
use fidget_core::types::{Grad, Interval};
use fidget_core::vm::{Choice, GenericVmFunction, VmFunction};
use fidget_jit::JitFunction;
use proptest::collection::vec;
use proptest::prelude::*;
use serde::{Deserialize, Serialize};
use std::collections::HashMap;

#[derive(Clone, Debug, Serialize, Deserialize)]
pub struct Case {
    pub dag: DagSpec,
    pub points: Vec<Vec<Fl>>,
    pub boxes: Vec<Vec<(Fl, Fl)>>,
    pub slice_len: u8,
}

pub struct P;

#[derive(Copy, Clone, Debug, PartialEq)]
enum Kind {
    Min,
    Max,
    And,
    Or,
}

/// Where an operand's value comes from
#[derive(Copy, Clone, Debug)]
enum Src {
    Input(u32),
    Imm(f32),
    /// exported as output index
    Out(usize),
    /// a computed value that is not exported
    Hidden,
}

struct Clause {
    kind: Kind,
    lhs: Src,
    rhs: Src,
}

/// Symbolic pass over the public register tape (evaluation order)
fn clauses(ops: &[RegOp]) -> Vec<Clause> {
    // value ids: index of the defining op
    #[derive(Copy, Clone)]
    enum Def {
        Input(u32),
        Imm(f32),
        Computed,
    }
    let mut defs: Vec<Def> = vec![];
    let mut slot: HashMap<u32, usize> = HashMap::new(); // register / memory slot -> value id
    let mut out_of: HashMap<usize, usize> = HashMap::new(); // value id -> output index
    let mut raw: Vec<(Kind, Result<usize, f32>, Result<usize, f32>)> = vec![];
    for op in ops {
        let define = |reg: u8, d: Def, slot: &mut HashMap<u32, usize>, defs: &mut Vec<Def>| {
            defs.push(d);
            slot.insert(reg as u32, defs.len() - 1);
        };
        match *op {
            RegOp::Input(r, i) => define(r, Def::Input(i), &mut slot, &mut defs),
            RegOp::CopyImm(r, v) => define(r, Def::Imm(v), &mut slot, &mut defs),
            RegOp::Output(r, i) => {
                if let Some(id) = slot.get(&(r as u32)) {
                    out_of.entry(*id).or_insert(i as usize);
                }
            }
            RegOp::CopyReg(o, a) => {
                if let Some(id) = slot.get(&(a as u32)).copied() {
                    slot.insert(o as u32, id);
                }
            }
            RegOp::Load(r, m) => {
                if let Some(id) = slot.get(&m).copied() {
                    slot.insert(r as u32, id);
                }
            }
            RegOp::Store(r, m) => {
                if let Some(id) = slot.get(&(r as u32)).copied() {
                    slot.insert(m, id);
                }
            }
            RegOp::MinRegReg(o, a, b)
            | RegOp::MaxRegReg(o, a, b)
            | RegOp::AndRegReg(o, a, b)
            | RegOp::OrRegReg(o, a, b) => {
                let k = match op {
                    RegOp::MinRegReg(..) => Kind::Min,
                    RegOp::MaxRegReg(..) => Kind::Max,
                    RegOp::AndRegReg(..) => Kind::And,
                    _ => Kind::Or,
                };
                raw.push((k, Ok(slot[&(a as u32)]), Ok(slot[&(b as u32)])));
                define(o, Def::Computed, &mut slot, &mut defs);
            }
            RegOp::MinRegImm(o, a, v)
            | RegOp::MaxRegImm(o, a, v)
            | RegOp::AndRegImm(o, a, v)
            | RegOp::OrRegImm(o, a, v) => {
                let k = match op {
                    RegOp::MinRegImm(..) => Kind::Min,
                    RegOp::MaxRegImm(..) => Kind::Max,
                    RegOp::AndRegImm(..) => Kind::And,
                    _ => Kind::Or,
                };
                raw.push((k, Ok(slot[&(a as u32)]), Err(v)));
                define(o, Def::Computed, &mut slot, &mut defs);
            }
            other => {
                // every other op defines a fresh computed value in its output
                let mut out = None;
                let mut first = true;
                other.visit_regs(|r| {
                    if first {
                        out = Some(r);
                        first = false;
                    }
                });
                if let Some(o) = out {
                    define(o, Def::Computed, &mut slot, &mut defs);
                }
            }
        }
    }
    raw.into_iter()
        .map(|(kind, l, r)| {
            let src = |x: Result<usize, f32>| match x {
                Err(v) => Src::Imm(v),
                Ok(id) => match defs[id] {
                    Def::Input(i) => Src::Input(i),
                    Def::Imm(v) => Src::Imm(v),
                    Def::Computed => match out_of.get(&id) {
                        Some(o) => Src::Out(*o),
                        None => Src::Hidden,
                    },
                },
            };
            Clause {
                kind,
                lhs: src(l),
                rhs: src(r),
            }
        })
        .collect()
}

fn implied_point(k: Kind, a: f32, b: f32) -> Choice {
    match k {
        Kind::Min => {
            if a < b {
                Choice::Left
            } else if b < a {
                Choice::Right
            } else {
                Choice::Both
            }
        }
        Kind::Max => {
            if a > b {
                Choice::Left
            } else if b > a {
                Choice::Right
            } else {
                Choice::Both
            }
        }
        Kind::And => {
            if a == 0.0 {
                Choice::Left
            } else {
                Choice::Right
            }
        }
        Kind::Or => {
            if a != 0.0 {
                Choice::Left
            } else {
                Choice::Right
            }
        }
    }
}

fn implied_interval(k: Kind, a: Interval, b: Interval) -> Choice {
    if a.has_nan() || b.has_nan() {
        return Choice::Both;
    }
    match k {
        Kind::Min => {
            if a.upper() < b.lower() {
                Choice::Left
            } else if b.upper() < a.lower() {
                Choice::Right
            } else {
                Choice::Both
            }
        }
        Kind::Max => {
            if a.lower() > b.upper() {
                Choice::Left
            } else if b.lower() > a.upper() {
                Choice::Right
            } else {
                Choice::Both
            }
        }
        Kind::And => {
            if a.lower() == 0.0 && a.upper() == 0.0 {
                Choice::Left
            } else if !(a.lower() <= 0.0 && 0.0 <= a.upper()) {
                Choice::Right
            } else {
                Choice::Both
            }
        }
        Kind::Or => {
            if !(a.lower() <= 0.0 && 0.0 <= a.upper()) {
                Choice::Left
            } else if a.lower() == 0.0 && a.upper() == 0.0 {
                Choice::Right
            } else {
                Choice::Both
            }
        }
    }
}

fn check_trace<T: Copy>(
    what: &str,
    cl: &[Clause],
    trace: Option<&[Choice]>,
    choice_count: usize,
    input: &[T],
    out: &[T],
    imm: impl Fn(f32) -> T,
    implied: impl Fn(Kind, T, T) -> Option<Choice>,
    cx: &mut Cx,
) -> Result<Vec<Option<Choice>>, Fail> {
    let val = |s: Src| -> Option<T> {
        match s {
            Src::Input(i) => input.get(i as usize).copied(),
            Src::Imm(v) => Some(imm(v)),
            Src::Out(o) => out.get(o).copied(),
            Src::Hidden => None,
        }
    };
    let imp: Vec<Option<Choice>> = cl
        .iter()
        .map(|c| match (val(c.lhs), val(c.rhs)) {
            (Some(a), Some(b)) => implied(c.kind, a, b),
            _ => None,
        })
        .collect();
    match trace {
        None => {
            cx.ev.count(&format!("{what}_no_trace"));
            for (k, i) in imp.iter().enumerate() {
                if let Some(c) = i {
                    ensure!(
                        *c == Choice::Both,
                        format!("no-trace-despite-decision-{what}"),
                        "{what}: no trace was reported although clause {k} ({:?}) is decided ({c:?})",
                        cl[k].kind
                    );
                }
            }
        }
        Some(t) => {
            ensure!(
                t.len() == choice_count && t.len() == cl.len(),
                format!("trace-length-{what}"),
                "{what}: trace has {} entries, the tape has {} choice clauses (choice_count {choice_count})",
                t.len(),
                cl.len()
            );
            for (k, c) in t.iter().enumerate() {
                ensure!(
                    *c != Choice::Unknown,
                    format!("trace-unknown-{what}"),
                    "{what}: trace entry {k} of {} is Unknown",
                    t.len()
                );
                match imp[k] {
                    Some(i) => {
                        cx.ev.count(&format!("{what}_clauses_checked"));
                        ensure!(
                            *c == i,
                            format!("trace-wrong-{what}"),
                            "{what}: clause {k} ({:?}) recorded {c:?} but its operands imply {i:?}",
                            cl[k].kind
                        );
                    }
                    None => cx.ev.count(&format!("{what}_clauses_skipped_operand_not_exported_or_malformed")),
                }
            }
        }
    }
    Ok(imp)
}

fn run_fn<F: MathFunction + Function<Trace = fidget_core::vm::VmTrace>>(
    what: &str,
    f: &F,
    ops: &[RegOp],
    b: &Built,
    case: &Case,
    nroots: usize,
    cx: &mut Cx,
) -> Result<Vec<(Vec<u32>, Vec<Choice>)>, Fail> {
    let cl = clauses(ops);
    let choice_count = cl.len();
    ensure!(
        f.size() == ops.len(),
        format!("size-{what}"),
        "{what}: size() is {} but the tape has {} operations",
        f.size(),
        ops.len()
    );
    ensure!(
        f.output_count() == nroots,
        format!("output-count-{what}"),
        "{what}: output_count {} != {nroots}",
        f.output_count()
    );
    ensure!(
        f.can_simplify() == (choice_count > 0),
        format!("can-simplify-{what}"),
        "{what}: can_simplify() is {} with {choice_count} choice clauses",
        f.can_simplify()
    );
    let vm = f.vars();
    let mut order = vec![0usize; vm.len()];
    for (i, v) in b.vars.iter().enumerate() {
        if let Some(s) = vm.get(v) {
            order[s] = i;
        }
    }
    // every tape advertises the function's variable map and output count
    let pt = f.point_tape(Default::default());
    let it = f.interval_tape(Default::default());
    let ft = f.float_slice_tape(Default::default());
    let gt = f.grad_slice_tape(Default::default());
    macro_rules! tape_ok {
        ($t:expr, $n:expr) => {
            ensure!(
                $t.output_count() == f.output_count(),
                format!("tape-output-count-{what}"),
                "{what}: {} tape output_count {} != function {}",
                $n,
                $t.output_count(),
                f.output_count()
            );
            ensure!(
                $t.vars().len() == vm.len() && vm.iter().all(|(v, i)| $t.vars().get(&v) == Some(i)),
                format!("tape-vars-{what}"),
                "{what}: {} tape has a different variable map than the function",
                $n
            );
        };
    }
    tape_ok!(pt, "point");
    tape_ok!(it, "interval");
    tape_ok!(ft, "float-slice");
    tape_ok!(gt, "grad-slice");

    let mut results = vec![];
    // point traces
    let mut pe = F::new_point_eval();
    for p in &case.points {
        let input: Vec<f32> = order.iter().map(|o| p[*o].0).collect();
        let (out, tr) = pe
            .eval(&pt, &input)
            .map_err(|e| Fail::new("eval-error", format!("{e:?}")))?;
        ensure!(out.len() == nroots, format!("point-output-len-{what}"), "{} != {nroots}", out.len());
        let out = out.to_vec();
        let tr: Option<Vec<Choice>> = tr.map(|t| t.as_slice().to_vec());
        let imp = check_trace(
            &format!("{what}_point"),
            &cl,
            tr.as_deref(),
            choice_count,
            &input,
            &out,
            |v| v,
            |k, a, b| Some(implied_point(k, a, b)),
            cx,
        )?;
        let _ = imp;
        // operand bit patterns per clause, for the cross-backend comparison
        let bits: Vec<u32> = cl
            .iter()
            .flat_map(|c| {
                [c.lhs, c.rhs].map(|s| match s {
                    Src::Input(i) => input[i as usize].to_bits(),
                    Src::Imm(v) => v.to_bits(),
                    Src::Out(o) => out[o].to_bits(),
                    Src::Hidden => 0xFFFF_FFFF,
                })
            })
            .collect();
        results.push((bits, tr.unwrap_or_default()));
    }
    // interval traces
    let mut ie = F::new_interval_eval();
    for bx in &case.boxes {
        let input: Vec<Interval> = order
            .iter()
            .map(|o| Interval::new(bx[*o].0.0, bx[*o].1.0))
            .collect();
        let (out, tr) = ie
            .eval(&it, &input)
            .map_err(|e| Fail::new("eval-error", format!("{e:?}")))?;
        ensure!(out.len() == nroots, format!("interval-output-len-{what}"), "{} != {nroots}", out.len());
        let out = out.to_vec();
        let tr: Option<Vec<Choice>> = tr.map(|t| t.as_slice().to_vec());
        let wellformed = |i: Interval| (i.lower().is_nan() && i.upper().is_nan()) || i.lower() <= i.upper();
        check_trace(
            &format!("{what}_interval"),
            &cl,
            tr.as_deref(),
            choice_count,
            &input,
            &out,
            Interval::from,
            |k, a, b| {
                if wellformed(a) && wellformed(b) {
                    Some(implied_interval(k, a, b))
                } else {
                    None
                }
            },
            cx,
        )?;
    }
    // bulk outputs: exactly output_count arrays of exactly n samples
    let n = case.slice_len as usize;
    let pts: Vec<&Vec<Fl>> = (0..n).map(|i| &case.points[i % case.points.len()]).collect();
    let cols: Vec<Vec<f32>> = order
        .iter()
        .map(|o| pts.iter().map(|p| p[*o].0).collect())
        .collect();
    let mut fe = F::new_float_slice_eval();
    let o = fe
        .eval(&ft, &cols)
        .map_err(|e| Fail::new("eval-error", format!("{e:?}")))?;
    ensure!(
        o.len() == nroots && o.is_empty() == (nroots == 0),
        format!("bulk-output-count-{what}"),
        "{what}: float slice eval returned {} arrays for {nroots} outputs",
        o.len()
    );
    if !cols.is_empty() {
        for k in 0..nroots {
            ensure!(
                o[k].len() == n,
                format!("bulk-output-len-{what}"),
                "{what}: output {k} has {} samples for {n} inputs",
                o[k].len()
            );
        }
    }
    let gcols: Vec<Vec<Grad>> = cols
        .iter()
        .map(|c| c.iter().map(|v| Grad::from(*v)).collect())
        .collect();
    let mut ge = F::new_grad_slice_eval();
    let o = ge
        .eval(&gt, &gcols)
        .map_err(|e| Fail::new("eval-error", format!("{e:?}")))?;
    ensure!(
        o.len() == nroots && o.is_empty() == (nroots == 0),
        format!("bulk-output-count-{what}"),
        "{what}: grad slice eval returned {} arrays for {nroots} outputs",
        o.len()
    );
    if !gcols.is_empty() {
        for k in 0..nroots {
            ensure!(
                o[k].len() == n,
                format!("bulk-output-len-{what}"),
                "{what}: grad output {k} has {} samples for {n} inputs",
                o[k].len()
            );
        }
    }
    cx.ev.max("max_choice_clauses", choice_count as u64);
    Ok(results)
}

/// "Output arrays have exactly the requested number of outputs and samples"
/// also for an evaluator object that has just served a wider or a narrower
/// function with another batch size: all four evaluator kinds, one object each,
/// used on `first` and then on `second`
fn shapes_after_reuse<F: MathFunction>(
    what: &str,
    first: &F,
    second: &F,
    n1: usize,
    n2: usize,
    cx: &mut Cx,
) -> CheckResult {
    let mut pe = F::new_point_eval();
    let mut ie = F::new_interval_eval();
    let mut fe = F::new_float_slice_eval();
    let mut ge = F::new_grad_slice_eval();
    for (f, n) in [(first, n1), (second, n2)] {
        let nv = f.vars().len();
        let want = f.output_count();
        let t = f.point_tape(Default::default());
        let (o, _) = pe
            .eval(&t, &vec![0.5f32; nv])
            .map_err(|e| Fail::new("eval-error", format!("{e:?}")))?;
        ensure!(o.len() == want, format!("reused-output-count-{what}"), "point eval on a reused evaluator: {} outputs, the tape has {want}", o.len());
        let t = f.interval_tape(Default::default());
        let (o, _) = ie
            .eval(&t, &vec![Interval::new(0.25, 0.75); nv])
            .map_err(|e| Fail::new("eval-error", format!("{e:?}")))?;
        ensure!(o.len() == want, format!("reused-output-count-{what}"), "interval eval on a reused evaluator: {} outputs, the tape has {want}", o.len());
        let t = f.float_slice_tape(Default::default());
        let cols = vec![vec![0.5f32; n]; nv];
        let o = fe
            .eval(&t, &cols)
            .map_err(|e| Fail::new("eval-error", format!("{e:?}")))?;
        ensure!(o.len() == want, format!("reused-output-count-{what}"), "float slice eval on a reused evaluator: {} output arrays, the tape has {want}", o.len());
        if nv > 0 {
            for k in 0..want {
                ensure!(o[k].len() == n, format!("reused-output-len-{what}"), "float slice eval on a reused evaluator: output {k} has {} samples for {n} inputs", o[k].len());
            }
        }
        let t = f.grad_slice_tape(Default::default());
        let cols = vec![vec![Grad::from(0.5); n]; nv];
        let o = ge
            .eval(&t, &cols)
            .map_err(|e| Fail::new("eval-error", format!("{e:?}")))?;
        ensure!(o.len() == want, format!("reused-output-count-{what}"), "grad slice eval on a reused evaluator: {} output arrays, the tape has {want}", o.len());
        if nv > 0 {
            for k in 0..want {
                ensure!(o[k].len() == n, format!("reused-output-len-{what}"), "grad slice eval on a reused evaluator: output {k} has {} samples for {n} inputs", o[k].len());
            }
        }
    }
    cx.ev.count("output_shapes_checked_on_reused_evaluators");
    Ok(())
}

impl Prop for P {
    const ID: &'static str = "C20";
    type Case = Case;

    fn strategy(tier: Tier) -> BoxedStrategy<Case> {
        let max = tier.pick(300, 600);
        let mut p = gens::DagParams::all(max).boost_choices(10);
        p.min_vars = 0;
        p.max_vars = 4;
        p.consts = prop_oneof![
            4 => gens::fl_uniform(-2.0, 2.0),
            2 => gens::fl_grid(),
            2 => gens::fl_special(),
        ]
        .boxed();
        (
            gens::dag(p),
            gens::points(1..=4, prop_oneof![3 => gens::fl_moderate(), 1 => gens::fl_any()].boxed()),
            vec(vec(interval_strategy(1e6), 8..=8), 1..=3),
            0u8..=20,
        )
            .prop_map(|(dag, points, boxes, slice_len)| { let points = gens::coincide(&dag, points); let boxes = boxes.into_iter().map(|b| gens::coincide_boxes(&dag, b, 1e6)).collect(); Case {
                dag,
                points,
                boxes,
                slice_len,
            }})
            .boxed()
    }

    fn check(case: &Case, cx: &mut Cx) -> CheckResult {
        let b = build_dag(&case.dag);
        let roots = crate::p01::roots_of(&b, &None);
        // interpreter (default budget) ...
        let vf = VmFunction::new(&b.ctx, &roots).unwrap();
        let vops: Vec<RegOp> = vf.data().iter_asm().collect();
        ensure!(
            vf.data().choice_count() == clauses(&vops).len(),
            "choice-count",
            "choice_count() {} != {} choice operations on the tape",
            vf.data().choice_count(),
            clauses(&vops).len()
        );
        run_fn("vm", &vf, &vops, &b, case, roots.len(), cx)?;
        // ... and interpreter + JIT on the same 12-register tape
        let jf = JitFunction::new(&b.ctx, &roots).unwrap();
        let v12: &GenericVmFunction<12> = (&jf).into();
        let jops: Vec<RegOp> = v12.data().iter_asm().collect();
        let rv = run_fn("vm12", v12, &jops, &b, case, roots.len(), cx)?;
        let rj = run_fn("jit", &jf, &jops, &b, case, roots.len(), cx)?;
        // once more with the evaluators' own arrays (choices, outputs) bounded
        // by PROT_NONE pages: a choice written past the end of the trace
        // array, or an output past the requested count, kills the worker
        if case.slice_len % 3 != 1 {
            let rg = crate::galloc::with_guard(case.slice_len % 3 == 0, || {
                run_fn("jit", &jf, &jops, &b, case, roots.len(), cx)
            })?;
            cx.ev.count("cases_repeated_with_guard_page_evaluator_arrays");
            ensure!(
                rg.len() == rj.len() && rg.iter().zip(&rj).all(|(a, b)| a.1 == b.1),
                "guarded-evaluator-changes-trace",
                "JIT point traces differ between a fresh evaluator with guard-page arrays and an ordinary one"
            );
        }
        // output shapes from evaluator objects that served another function
        // before: a narrower one (the first output alone) then this one, and
        // the other way round, with different batch sizes
        {
            let n = case.slice_len as usize;
            let narrow = &roots[..1];
            let vn = VmFunction::new(&b.ctx, narrow).unwrap();
            shapes_after_reuse("vm", &vf, &vn, n + 3, n, cx)?;
            shapes_after_reuse("vm", &vn, &vf, n, n + 9, cx)?;
            let jn = JitFunction::new(&b.ctx, narrow).unwrap();
            shapes_after_reuse("jit", &jf, &jn, n + 3, n, cx)?;
            shapes_after_reuse("jit", &jn, &jf, n, n + 9, cx)?;
        }
        // same trace for the same point, clause by clause, wherever the two
        // evaluators saw bit-identical operands
        for (pi, ((bv, tv), (bj, tj))) in rv.iter().zip(&rj).enumerate() {
            if tv.is_empty() || tj.is_empty() {
                continue;
            }
            for k in 0..tv.len().min(tj.len()) {
                if bv[2 * k..2 * k + 2] == bj[2 * k..2 * k + 2] && bv[2 * k] != 0xFFFF_FFFF && bv[2 * k + 1] != 0xFFFF_FFFF {
                    cx.ev.count("cross_backend_clause_comparisons");
                    ensure!(
                        tv[k] == tj[k],
                        "trace-backends-differ",
                        "point {pi}, clause {k}: interpreter recorded {:?}, JIT {:?} for bit-identical operands",
                        tv[k],
                        tj[k]
                    );
                }
            }
        }
        // non-trivial: >= 3 clauses of >= 2 kinds taking >= 2 different decisions
        let cl = clauses(&jops);
        let kinds: std::collections::HashSet<u8> = cl.iter().map(|c| c.kind as u8).collect();
        let decisions: std::collections::HashSet<u8> =
            rj.iter().flat_map(|(_, t)| t.iter().map(|c| *c as u8)).collect();
        if cl.len() >= 3 && kinds.len() >= 2 && decisions.len() >= 2 {
            cx.ev.nontrivial(case);
        }
        let _ = sample_in;
        Ok(())
    }

    fn reduce(case: &Case) -> Vec<Case> {
        let mut out = vec![];
        if case.points.len() > 1 {
            for p in &case.points {
                let mut c = case.clone();
                c.points = vec![p.clone()];
                out.push(c);
            }
        }
        if case.boxes.len() > 1 {
            for b in &case.boxes {
                let mut c = case.clone();
                c.boxes = vec![b.clone()];
                out.push(c);
            }
        }
        let nv = case.dag.nvars as usize;
        for k in (0..case.dag.nodes.len()).rev().take(30) {
            let (d2, _) = case.dag.prune(&[nv + k]);
            if d2.nodes.len() < case.dag.nodes.len() && !d2.nodes.is_empty() {
                let mut c = case.clone();
                c.dag = d2;
                out.push(c);
            }
        }
        out
    }

    fn plan(tier: Tier) -> Plan {
        match tier {
            Tier::Quick => Plan {
                workers: 16,
                cases_per_worker: 5000,
                timeout_s: 1800,
                max_shrink_iters: 2000,
            },
            Tier::Thorough => Plan {
                workers: 16,
                cases_per_worker: 80000,
                timeout_s: 14400,
                max_shrink_iters: 2000,
            },
        }
    }

    fn rule() -> &'static str {
        "generated DAGs with boosted min / max / and / or (0-200+ clauses, reg/reg and reg/imm forms), every node exported, \
         1-4 points and 1-3 boxes, slices of 0-20 samples; interpreter at 255 registers, and interpreter + JIT on the same \
         12-register tape. Oracle: a symbolic pass over the public register tape (iter_asm) assigns a value id to every \
         definition, follows CopyReg / Load / Store, and binds ids to output indices, so each clause's operands are read from \
         the outputs the evaluator under test itself produced; the documented rule (min: Left iff lhs < rhs resp. \
         lhs.upper < rhs.lower, ...; and/or by == 0; NaN => Both) gives the implied choice. A reported trace must have \
         exactly choice_count entries, none Unknown, each equal to the implied choice; no trace may be reported only if every \
         clause is undecided; interpreter and JIT agree clause by clause wherever their operands are bit-identical. Bulk \
         evaluators return exactly output_count arrays of exactly n samples; size(), can_simplify(), and every tape's vars() \
         and output_count() agree with the function. Non-trivial = at least 3 clauses of at least 2 kinds taking at least 2 \
         different decisions."
    }
}
