//! C02 — native (JIT) evaluators agree with the interpreter on every tape
use crate::build::*;
use crate::engine::*;
use crate::gens;
use crate::refsem::{self, same};
use crate::spec::*;
use crate::{ensure, fail};
use fidget_core::compiler::RegOp;
use fidget_core::context::{BinaryOpcode, Context, Node, Op, UnaryOpcode};
use fidget_core::eval::{BulkEvaluator, Function, MathFunction, TracingEvaluator};
use fidget_core::vm::GenericVmFunction;
use fidget_jit::JitFunction;
use proptest::collection::vec;
use proptest::prelude::*;
use serde::{Deserialize, Serialize};
use std::collections::HashMap;

#[derive(Clone, Debug, Serialize, Deserialize)]
pub struct Case {
    pub dag: DagSpec,
    /// None: every distinct node is an output (local obligations possible)
    pub outs: Option<Vec<u16>>,
    pub points: Vec<Vec<Fl>>,
    /// extra slice lengths to evaluate (prefixes), besides the full length
    pub lens: Vec<u8>,
    /// pass more input slices than the function has variables
    pub extra_inputs: bool,
}

pub struct P;

/// Taint from the *reference* evaluation: nodes whose value may legitimately
/// differ between evaluators (sign of a min/max tie between zeros, hash of a
/// NaN's payload), and everything downstream
pub fn ref_taint(
    ctx: &Context,
    order: &[Node],
    vals: &HashMap<Node, f32>,
) -> HashMap<Node, bool> {
    ref_taint_ext(ctx, order, vals, false, false)
}

/// `grad`: also taint abs(-0.0) (the gradient evaluators return -0.0 there,
/// finding F12).  `enclosure`: also taint atan2(0, 0) (stated exclusion of the
/// enclosure property) and rand / mix of a zero (finding F6).
pub fn ref_taint_ext(
    ctx: &Context,
    order: &[Node],
    vals: &HashMap<Node, f32>,
    grad: bool,
    enclosure: bool,
) -> HashMap<Node, bool> {
    let mut taint: HashMap<Node, bool> = HashMap::new();
    for n in order {
        let op = *ctx.get_op(*n).unwrap();
        let mut t = op.iter_children().any(|c| taint[&c]);
        match op {
            Op::Binary(BinaryOpcode::Min | BinaryOpcode::Max, l, r) => {
                let (lv, rv) = (vals[&l], vals[&r]);
                if lv == 0.0 && rv == 0.0 && lv.to_bits() != rv.to_bits() {
                    t = true;
                }
            }
            Op::Unary(UnaryOpcode::Rand, a) if vals[&a].is_nan() => t = true,
            Op::Binary(BinaryOpcode::Mix, l, r)
                if vals[&l].is_nan() || vals[&r].is_nan() =>
            {
                t = true
            }
            Op::Unary(UnaryOpcode::Abs, a)
                if grad && vals[&a].to_bits() == (-0.0f32).to_bits() =>
            {
                t = true
            }
            Op::Binary(BinaryOpcode::Atan, l, r)
                if enclosure && vals[&l] == 0.0 && vals[&r] == 0.0 =>
            {
                t = true
            }
            Op::Unary(UnaryOpcode::Rand, a) if enclosure && vals[&a] == 0.0 => {
                t = true
            }
            Op::Binary(BinaryOpcode::Mix, l, r)
                if enclosure && (vals[&l] == 0.0 || vals[&r] == 0.0) =>
            {
                t = true
            }
            _ => {}
        }
        taint.insert(*n, t);
    }
    taint
}

fn is_libm(op: &RegOp) -> bool {
    let s = format!("{op:?}");
    ["Sin", "Cos", "Tan", "Asin", "Acos", "Atan", "Exp", "Ln", "Mod"]
        .iter()
        .any(|p| s.starts_with(p))
}

impl Prop for P {
    const ID: &'static str = "C02";
    type Case = Case;

    fn strategy(tier: Tier) -> BoxedStrategy<Case> {
        let max = tier.pick(50, 200);
        let mut p = gens::DagParams::all(max);
        p.min_vars = 0;
        // a few programs with 33-200 variables (input offsets beyond a signed
        // byte) and a few with 130-300 values live at once (stack offsets)
        let mut pw = gens::DagParams::all(max);
        pw.consts = gens::fl_moderate();
        (
            prop_oneof![
                tier.pick(300, 100) => gens::dag(p),
                2 => gens::dag_wide(pw.clone(), 1..=1, 33..=200, true),
                1 => gens::dag_wide(pw, 1..=6, 130..=300, false),
            ],
            prop_oneof![
                3 => Just(None),
                1 => vec(any::<u16>(), 1..=8).prop_map(Some),
            ],
            gens::points(0..=35, gens::fl_any()),
            vec(any::<u8>(), 0..=3),
            any::<bool>(),
        )
            .prop_map(|(dag, outs, points, lens, extra_inputs)| { let points = gens::coincide(&dag, points); Case {
                dag,
                outs,
                points,
                lens,
                extra_inputs,
            }})
            .boxed()
    }

    fn check(case: &Case, cx: &mut Cx) -> CheckResult {
        // many-variable programs: the 8 generated coordinates are extended
        let widened;
        let case = if case.dag.nvars as usize > 8 {
            let mut c = case.clone();
            c.points = gens::widen_points(&case.points, case.dag.nvars as usize);
            widened = c;
            cx.ev.count("programs_with_more_than_32_variables");
            &widened
        } else {
            case
        };
        let b = build_dag(&case.dag);
        let roots = crate::p01::roots_of(&b, &case.outs);
        let all_nodes = case.outs.is_none();
        let jf = JitFunction::new(&b.ctx, &roots).unwrap();
        let vmf: &GenericVmFunction<12> = (&jf).into();
        ensure!(
            jf.output_count() == roots.len(),
            "output-count",
            "{} != {}",
            jf.output_count(),
            roots.len()
        );
        let root_index: HashMap<Node, usize> =
            roots.iter().enumerate().map(|(i, n)| (*n, i)).collect();

        // classification
        let slots = vmf.data().slot_count();
        let mut libm = false;
        for op in vmf.data().iter_asm() {
            libm |= is_libm(&op);
        }
        if slots > 12 {
            cx.ev.count("tapes_with_native_stack_spills");
            cx.ev.max("max_slot_count", slots as u64);
        }
        if libm {
            cx.ev.count("tapes_with_libm_calls");
        }

        let vm = jf.vars();
        let nin = vm.len();
        let mut order: Vec<Option<usize>> = vec![None; nin];
        for (i, v) in b.vars.iter().enumerate() {
            if let Some(slot) = vm.get(v) {
                order[slot] = Some(i);
            }
        }
        ensure!(order.iter().all(|o| o.is_some()), "varmap", "{order:?}");
        let order: Vec<usize> = order.into_iter().map(|o| o.unwrap()).collect();

        let topo_order = topo(&b.ctx, &roots);
        // operand value of node `n` for sample with inputs `p`, taken from an
        // evaluator's own outputs
        let operand = |n: Node, p: &[Fl], outs: &dyn Fn(usize) -> f32| -> Option<f32> {
            match b.ctx.get_op(n).unwrap() {
                Op::Input(v) => {
                    let i = b.vars.iter().position(|w| w == v).unwrap();
                    Some(p[i].0)
                }
                Op::Const(c) => Some(c.0),
                _ => root_index.get(&n).map(|k| outs(*k)),
            }
        };
        // local obligation for every root, against the evaluator's own
        // operand values
        let local = |p: &[Fl],
                     outs: &dyn Fn(usize) -> f32,
                     what: &str,
                     cx: &mut Cx|
         -> CheckResult {
            for (k, r) in roots.iter().enumerate() {
                let got = outs(k);
                let (exp, bop, a, bb) = match *b.ctx.get_op(*r).unwrap() {
                    Op::Input(..) | Op::Const(..) => {
                        let e = operand(*r, p, outs).unwrap();
                        (e, None, 0.0, 0.0)
                    }
                    Op::Unary(o, a) => {
                        let Some(a) = operand(a, p, outs) else { continue };
                        (refsem::un(un_of(o), a), None, a, 0.0)
                    }
                    Op::Binary(o, l, rr) => {
                        let (Some(l), Some(rr)) =
                            (operand(l, p, outs), operand(rr, p, outs))
                        else {
                            continue;
                        };
                        let o = bin_of(o);
                        (refsem::bin(o, l, rr), Some(o), l, rr)
                    }
                };
                cx.ev.count("local_obligations");
                if !refsem::same_tol(bop, got, exp, a, bb) {
                    fail!(
                        format!("local-{what}"),
                        "{what}: node {:?} operands ({}, {}) -> {} but reference {}; inputs {:?}",
                        b.ctx.get_op(*r).unwrap(),
                        fl_to_string(a),
                        fl_to_string(bb),
                        fl_to_string(got),
                        fl_to_string(exp),
                        p
                    );
                }
            }
            Ok(())
        };

        let tape_p = jf.point_tape(Default::default());
        let tape_s = jf.float_slice_tape(Default::default());
        let vtape_p = vmf.point_tape(Default::default());
        let vtape_s = vmf.float_slice_tape(Default::default());
        let mut pe = JitFunction::new_point_eval();
        let mut se = JitFunction::new_float_slice_eval();
        let mut vpe = GenericVmFunction::<12>::new_point_eval();
        let mut vse = GenericVmFunction::<12>::new_float_slice_eval();

        // reference taints per point
        let mut taints: Vec<Vec<bool>> = vec![];
        for p in &case.points {
            let pm = point_map(&b.vars, p);
            let vals = eval_all(&b.ctx, &roots, &pm);
            let t = ref_taint(&b.ctx, &topo_order, &vals);
            taints.push(roots.iter().map(|r| t[r]).collect());
        }

        // ---- single-point evaluation
        for (pi, p) in case.points.iter().enumerate().take(6) {
            let mut input: Vec<f32> = order.iter().map(|o| p[*o].0).collect();
            if case.extra_inputs {
                input.push(123.0);
            }
            {
                // guard-page placement of the variable slice (point evaluator)
                let g = crate::guard::Guarded::new(&input, true);
                if !input.is_empty() {
                    let _ = pe
                        .eval(&tape_p, &g)
                        .map_err(|e| Fail::new("point-eval-error", format!("{e:?}")))?;
                }
            }
            // the point evaluator's own output / choice arrays bounded by
            // guard pages
            let gout: Result<Vec<f32>, Fail> =
                crate::galloc::with_guard(pi % 2 == 0, || {
                    let mut pe2 = JitFunction::new_point_eval();
                    let (o, _) = pe2
                        .eval(&tape_p, &input)
                        .map_err(|e| Fail::new("point-eval-error", format!("{e:?}")))?;
                    Ok(o.to_vec())
                });
            let gout = gout?;
            let (out, _) = pe
                .eval(&tape_p, &input)
                .map_err(|e| Fail::new("point-eval-error", format!("{e:?}")))?;
            for k in 0..out.len().min(gout.len()) {
                if !same(out[k], gout[k]) {
                    fail!(
                        "guarded-evaluator-changes-result",
                        "point output {k} is {} from a fresh evaluator with guard-page arrays, {} from the long-lived one",
                        fl_to_string(gout[k]),
                        fl_to_string(out[k])
                    );
                }
            }
            ensure!(
                out.len() == roots.len(),
                "point-output-len",
                "{} != {}",
                out.len(),
                roots.len()
            );
            let out = out.to_vec();
            let (vout, _) = vpe.eval(&vtape_p, &input).unwrap();
            if all_nodes {
                local(p, &|k| out[k], "jit-point", cx)?;
            }
            for k in 0..roots.len() {
                if taints[pi][k] {
                    cx.ev.count("global_skipped_tainted");
                    continue;
                }
                cx.ev.count("global_point_comparisons");
                if !same(out[k], vout[k]) {
                    fail!(
                        "global-point",
                        "jit point {} vs interpreter {} for output {k} {:?}; inputs {:?}",
                        fl_to_string(out[k]),
                        fl_to_string(vout[k]),
                        b.ctx.get_op(roots[k]).unwrap(),
                        p
                    );
                }
            }
        }

        // ---- many-point evaluation
        let n = case.points.len();
        let mut lens: Vec<usize> = vec![n];
        for l in &case.lens {
            lens.push((*l as usize * (n + 1)) >> 8);
        }
        let mut nontrivial = false;
        for len in lens {
            let mut cols: Vec<Vec<f32>> = order
                .iter()
                .map(|o| case.points[..len].iter().map(|p| p[*o].0).collect())
                .collect();
            if case.extra_inputs {
                cols.push(vec![7.0; len]);
            }
            let out = se
                .eval(&tape_s, &cols)
                .map_err(|e| Fail::new("slice-eval-error", format!("{e:?}")))?;
            ensure!(
                out.len() == roots.len(),
                "slice-output-count",
                "{} output arrays, expected {}",
                out.len(),
                roots.len()
            );
            if cols.is_empty() {
                continue;
            }
            for k in 0..roots.len() {
                ensure!(
                    out[k].len() == len,
                    "slice-output-len",
                    "output {k}: {} samples for {len} inputs",
                    out[k].len()
                );
            }
            cx.ev.count(&format!("slice_len_mod8_{}", len % 8));
            if len < 8 {
                cx.ev.count("slice_len_below_simd");
            }
            if len == 0 {
                cx.ev.count("slice_len_zero");
            }
            if (slots > 12 || (libm && slots >= 3)) && len % 8 != 0 {
                nontrivial = true;
            }
            let outv: Vec<Vec<f32>> =
                (0..roots.len()).map(|k| out[k].to_vec()).collect();
            // bounds clause: the same evaluation with every input slice flush
            // against a PROT_NONE page (end-flush, then start-flush).  A load
            // or store outside the caller's slices faults; the parent reports
            // the dead worker with this case.
            if !cols.is_empty() && (len % 2 == 1 || len < 9) {
                for at_end in [true, false] {
                    let g: Vec<crate::guard::Guarded> = cols
                        .iter()
                        .map(|c| crate::guard::Guarded::new(c, at_end))
                        .collect();
                    let o2 = se
                        .eval(&tape_s, &g)
                        .map_err(|e| Fail::new("slice-eval-error", format!("{e:?}")))?;
                    cx.ev.count("guard_page_evaluations");
                    for k in 0..roots.len() {
                        for i in 0..len {
                            if !same(o2[k][i], outv[k][i]) {
                                fail!(
                                    "guarded-inputs-change-result",
                                    "len {len}: output {k} sample {i} is {} with guard-page inputs, {} with ordinary vectors",
                                    fl_to_string(o2[k][i]),
                                    fl_to_string(outv[k][i])
                                );
                            }
                        }
                    }
                }
            }
            // ... and with the evaluator's OWN arrays (outputs, pointer tables,
            // short-batch scratch lanes) allocated flush against PROT_NONE
            // pages: a fresh evaluator is created and used inside a
            // guard-page allocation section (galloc.rs)
            if len % 2 == 1 || len < 9 || len == n {
                for at_end in [true, false] {
                    let o3: Result<Vec<Vec<f32>>, Fail> =
                        crate::galloc::with_guard(at_end, || {
                            let mut se2 = JitFunction::new_float_slice_eval();
                            let o = se2.eval(&tape_s, &cols).map_err(|e| {
                                Fail::new("slice-eval-error", format!("{e:?}"))
                            })?;
                            Ok((0..roots.len()).map(|k| o[k].to_vec()).collect())
                        });
                    let o3 = o3?;
                    cx.ev.count("guard_page_evaluator_evaluations");
                    for k in 0..roots.len() {
                        for i in 0..len.min(o3[k].len()) {
                            if !same(o3[k][i], outv[k][i]) {
                                fail!(
                                    "guarded-evaluator-changes-result",
                                    "len {len}: output {k} sample {i} is {} from a fresh evaluator with guard-page arrays, {} from the long-lived one",
                                    fl_to_string(o3[k][i]),
                                    fl_to_string(outv[k][i])
                                );
                            }
                        }
                    }
                }
            }
            let vout = vse.eval(&vtape_s, &cols).unwrap();
            for i in 0..len {
                if all_nodes {
                    local(&case.points[i], &|k| outv[k][i], "jit-slice", cx)?;
                }
                for k in 0..roots.len() {
                    if taints[i][k] {
                        continue;
                    }
                    cx.ev.count("global_slice_comparisons");
                    if !same(outv[k][i], vout[k][i]) {
                        fail!(
                            "global-slice",
                            "len {len} sample {i}: jit slice {} vs interpreter {} for output {k} {:?}; inputs {:?}",
                            fl_to_string(outv[k][i]),
                            fl_to_string(vout[k][i]),
                            b.ctx.get_op(roots[k]).unwrap(),
                            case.points[i]
                        );
                    }
                }
            }
        }
        if nontrivial {
            cx.ev.nontrivial(case);
        }
        Ok(())
    }

    fn reduce(case: &Case) -> Vec<Case> {
        let mut out = vec![];
        if case.points.len() > 1 {
            for p in case.points.iter().take(12) {
                let mut c = case.clone();
                c.points = vec![p.clone()];
                c.lens = vec![];
                out.push(c);
            }
            let mut c = case.clone();
            c.lens = vec![];
            out.push(c);
        }
        out
    }

    fn plan(tier: Tier) -> Plan {
        match tier {
            Tier::Quick => Plan {
                workers: 16,
                cases_per_worker: 8000,
                timeout_s: 1800,
                max_shrink_iters: 2000,
            },
            Tier::Thorough => Plan {
                workers: 16,
                cases_per_worker: 90000,
                timeout_s: 14400,
                max_shrink_iters: 2000,
            },
        }
    }

    fn rule() -> &'static str {
        "proptest-generated DAGs (all opcodes, all operand forms, fan-in shapes that exceed the 12 native registers, \
         libm opcodes interleaved with live values, 0-6 variables) built once as a JitFunction with every node as an \
         output (or 1-8 selected outputs), evaluated with the JIT point evaluator and the JIT SIMD evaluator on slices of \
         0..=35 samples (full pool incl. NaN, +-0, +-inf, denormals) and several prefix lengths. Oracles: (1) per node, \
         the JIT result must equal the reference meaning of the opcode applied to the JIT's own operand values \
         (bit-identical, NaN=NaN, min/max of two zeros may differ in sign); (2) every output equals the interpreter on \
         the same tape unless a reference-tainted node (min/max tie of opposite zeros, hash of a NaN) is upstream; (3) \
         exactly output_count arrays of exactly n samples; (4) every slice evaluation is repeated with each input slice \
         mapped flush against a PROT_NONE page, at its end and at its start (an access outside the caller's slices kills the \
         worker, which the parent reports with the case), and once more with a fresh evaluator whose own output arrays, pointer \
         tables and short-batch scratch lanes are allocated flush against PROT_NONE pages (guard-page allocator); \
         Non-trivial = (tape has more than 12 slots, or a libm call with \
         other live slots) and a slice length that is not a multiple of 8."
    }

    fn assumptions() -> Vec<&'static str> {
        vec![
            "x86_64 only (the aarch64 assembler in the anchors is not exercised on this host)",
            "host libm is the same function for generated code and interpreter",
            "bounds clause: every slice evaluation is repeated with the input slices placed flush against PROT_NONE pages (end-flush and start-flush), and with a fresh evaluator whose own heap arrays (outputs, choices, pointer tables, scratch) are flush against PROT_NONE pages; the native stack frame is not instrumented",
        ]
    }
}
