//! C08 — meshes are closed, consistently oriented and enclose the shape's volume
use crate::build::*;
use crate::csg::{self, Csg};
use crate::engine::*;
use crate::gens;
use crate::p06::make_pool;
use crate::p07::{world_to_model, xform_strategy};
use crate::spec::*;
use crate::{ensure, fail};
use fidget_core::context::Context;
use fidget_core::eval::MathFunction;
use fidget_core::render::RenderHints;
use fidget_core::shape::Shape;
use fidget_core::vm::VmFunction;
use fidget_jit::JitFunction;
use fidget_mesh::{Mesh, Octree, Settings};
use nalgebra::{Matrix4, Point3, Vector3};
use proptest::prelude::*;
use serde::{Deserialize, Serialize};
use std::collections::HashMap;

#[derive(Clone, Debug, Serialize, Deserialize)]
pub struct Case {
    pub shape: Csg,
    pub depth: u8,
    pub xform: Option<([Fl; 3], u32, Fl, [Fl; 3])>,
    pub jit: bool,
    pub threads: u8,
    /// the whole world-to-model matrix is multiplied by 1, 2, 1/2 or 4: the
    /// same projective map with a homogeneous coordinate other than 1
    #[serde(default)]
    pub wscale: u8,
    /// the field handed to the mesher is the shape's field times a positive
    /// constant (same surface, same solid): 1, 1e-2, 1e-4, 1e-6, 64, 1e4
    #[serde(default)]
    pub fscale: u8,
}

const FSCALE: [f32; 6] = [1.0, 1e-2, 1e-4, 1e-6, 64.0, 1e4];

/// wscale 0..=3: the whole matrix times 1, 2, 1/2, 4 (the same projective map
/// with w != 1).  wscale 4..=7: only the homogeneous entry (3,3) is scaled, by
/// 0.5, 0.625, 0.75, 0.875 -- a uniform magnification kept in w, so that the
/// model region is larger than the unit cube; with no other transform the
/// first three rows of the matrix are exactly those of the identity.
fn w2m_of(case: &Case) -> nalgebra::Matrix4<f32> {
    let k = case.wscale as usize % 8;
    if k < 4 {
        world_to_model(&case.xform) * [1.0f32, 2.0, 0.5, 4.0][k]
    } else {
        let mut m = world_to_model(&case.xform);
        m[(3, 3)] *= [0.5f32, 0.625, 0.75, 0.875][k - 4];
        m
    }
}

pub struct P;

pub struct MeshStats {
    pub dup_edges: usize,
    pub unmatched_edges: usize,
    pub degenerate: usize,
    pub nonfinite: usize,
    pub volume: f64,
    pub area: f64,
    pub first_dup: Option<(usize, usize)>,
    pub dup_list: Vec<(usize, usize)>,
}

pub fn mesh_stats(m: &Mesh) -> MeshStats {
    let mut edges: HashMap<(usize, usize), usize> = HashMap::new();
    let mut degenerate = 0;
    let mut volume = 0.0f64;
    let mut area = 0.0f64;
    for t in &m.triangles {
        let (a, b, c) = (t.x, t.y, t.z);
        if a == b || b == c || a == c {
            degenerate += 1;
        }
        for e in [(a, b), (b, c), (c, a)] {
            *edges.entry(e).or_default() += 1;
        }
        let p = |i: usize| m.vertices[i].cast::<f64>();
        let (pa, pb, pc) = (p(a), p(b), p(c));
        volume += pa.dot(&pb.cross(&pc)) / 6.0;
        area += (pb - pa).cross(&(pc - pa)).norm() / 2.0;
    }
    let mut dup = 0;
    let mut unmatched = 0;
    let mut first_dup = None;
    let mut dup_list = vec![];
    for (e, n) in &edges {
        if *n > 1 {
            dup += 1;
            dup_list.push(*e);
            if first_dup.is_none() {
                first_dup = Some(*e);
            }
        }
        if edges.get(&(e.1, e.0)).copied().unwrap_or(0) != *n {
            unmatched += 1;
        }
    }
    let nonfinite = m
        .vertices
        .iter()
        .filter(|v| !(v.x.is_finite() && v.y.is_finite() && v.z.is_finite()))
        .count();
    MeshStats {
        dup_edges: dup,
        unmatched_edges: unmatched,
        degenerate,
        nonfinite,
        volume,
        area,
        first_dup,
        dup_list,
    }
}

/// Reference occupancy on a grid of n^3 samples of the world cube [-1, 1]^3
/// (cell centres), with the shape evaluated at world_to_model * q
pub struct RefGrid {
    pub n: usize,
    pub inside: Vec<bool>,
}

impl RefGrid {
    pub fn new(flat: &Flat, root: usize, w2m: &Matrix4<f32>, n: usize) -> RefGrid {
        let mut inside = vec![false; n * n * n];
        let mut vals = vec![];
        let c = |i: usize| -1.0 + (i as f32 + 0.5) * 2.0 / n as f32;
        for k in 0..n {
            for j in 0..n {
                for i in 0..n {
                    let p = w2m.transform_point(&Point3::new(c(i), c(j), c(k)));
                    flat.eval_xyz(p.x, p.y, p.z, &mut vals);
                    inside[(k * n + j) * n + i] = vals[root] < 0.0;
                }
            }
        }
        RefGrid { n, inside }
    }
    pub fn count(&self) -> usize {
        self.inside.iter().filter(|b| **b).count()
    }
    /// Any inside sample within `margin` samples of the boundary of the cube
    pub fn touches_shell(&self, margin: usize) -> bool {
        let n = self.n;
        for k in 0..n {
            for j in 0..n {
                for i in 0..n {
                    if self.inside[(k * n + j) * n + i]
                        && [i, j, k].iter().any(|v| *v < margin || *v >= n - margin)
                    {
                        return true;
                    }
                }
            }
        }
        false
    }
    /// Squared Euclidean distance (in samples) from every sample to the
    /// nearest sample where `mask` is true (exact, Felzenszwalb-Huttenlocher)
    fn edt(&self, mask: &[bool]) -> Vec<f32> {
        let n = self.n;
        const INF: f32 = 1e12;
        let mut d: Vec<f32> = mask.iter().map(|m| if *m { 0.0 } else { INF }).collect();
        let mut f = vec![0.0f32; n];
        let mut v = vec![0usize; n];
        let mut z = vec![0.0f32; n + 1];
        let mut pass = |d: &mut Vec<f32>, stride: usize, starts: &mut dyn Iterator<Item = usize>| {
            for s in starts {
                for q in 0..n {
                    f[q] = d[s + q * stride];
                }
                let mut k = 0usize;
                v[0] = 0;
                z[0] = -INF;
                z[1] = INF;
                for q in 1..n {
                    loop {
                        let p = v[k];
                        let sx = ((f[q] + (q * q) as f32) - (f[p] + (p * p) as f32))
                            / (2.0 * q as f32 - 2.0 * p as f32);
                        if sx <= z[k] && k > 0 {
                            k -= 1;
                        } else {
                            k += 1;
                            v[k] = q;
                            z[k] = sx;
                            z[k + 1] = INF;
                            break;
                        }
                    }
                }
                let mut k = 0usize;
                for q in 0..n {
                    while z[k + 1] < q as f32 {
                        k += 1;
                    }
                    let p = v[k];
                    let dq = q as f32 - p as f32;
                    d[s + q * stride] = dq * dq + f[p];
                }
            }
        };
        // along x, y, z
        pass(&mut d, 1, &mut (0..n * n).map(|r| r * n));
        pass(&mut d, n, &mut (0..n).flat_map(|k| (0..n).map(move |i| k * n * n + i)));
        pass(&mut d, n * n, &mut (0..n * n));
        d
    }

    /// Samples (of the inside set, or of the outside set) that lie farther
    /// than `cover` from every sample of the same set whose distance to the
    /// other set exceeds `r`: features or gaps thinner than about 2r
    pub fn thin_samples(&self, r: f32, cover: f32) -> usize {
        self.thin_mask(r, cover).iter().filter(|b| **b).count()
    }

    /// Mask of the samples counted by `thin_samples`
    pub fn thin_mask(&self, r: f32, cover: f32) -> Vec<bool> {
        let inside = self.inside.clone();
        let outside: Vec<bool> = inside.iter().map(|b| !*b).collect();
        let mut mask = vec![false; inside.len()];
        for (set, other) in [(&inside, &outside), (&outside, &inside)] {
            if !set.iter().any(|b| *b) {
                continue;
            }
            let d_other = self.edt(other);
            let core: Vec<bool> = (0..set.len())
                .map(|i| set[i] && d_other[i] > r * r)
                .collect();
            if !core.iter().any(|b| *b) {
                for i in 0..set.len() {
                    if set[i] {
                        mask[i] = true;
                    }
                }
                continue;
            }
            let d_core = self.edt(&core);
            for i in 0..set.len() {
                if set[i] && d_core[i] > cover * cover {
                    mask[i] = true;
                }
            }
        }
        mask
    }

    /// Is any masked sample within `radius` samples of the world point `q`?
    pub fn near_mask(&self, mask: &[bool], q: [f32; 3], radius: f32) -> bool {
        let n = self.n as i32;
        let idx = |v: f32| ((v + 1.0) * self.n as f32 / 2.0 - 0.5).round() as i32;
        let (ci, cj, ck) = (idx(q[0]), idx(q[1]), idx(q[2]));
        let r = radius.ceil() as i32;
        for k in (ck - r)..=(ck + r) {
            for j in (cj - r)..=(cj + r) {
                for i in (ci - r)..=(ci + r) {
                    if i < 0 || j < 0 || k < 0 || i >= n || j >= n || k >= n {
                        continue;
                    }
                    let d2 = ((i - ci).pow(2) + (j - cj).pow(2) + (k - ck).pow(2)) as f32;
                    if d2 <= radius * radius && mask[((k * n + j) * n + i) as usize] {
                        return true;
                    }
                }
            }
        }
        false
    }

    /// Number of sample faces between an inside and an outside sample
    pub fn boundary_faces(&self) -> usize {
        let n = self.n;
        let at = |i: usize, j: usize, k: usize| self.inside[(k * n + j) * n + i];
        let mut c = 0;
        for k in 0..n {
            for j in 0..n {
                for i in 0..n {
                    let v = at(i, j, k);
                    if i + 1 < n && at(i + 1, j, k) != v {
                        c += 1;
                    }
                    if j + 1 < n && at(i, j + 1, k) != v {
                        c += 1;
                    }
                    if k + 1 < n && at(i, j, k + 1) != v {
                        c += 1;
                    }
                }
            }
        }
        c
    }
}

fn run<F: MathFunction + RenderHints + Clone>(case: &Case, cx: &mut Cx) -> CheckResult {
    let mut ctx = Context::new();
    let root = case.shape.build(&mut ctx);
    // the mesher sees the scaled field; every oracle below uses the unscaled
    // (1-Lipschitz) one, which has the same zero set and the same sign
    let fk = FSCALE[case.fscale as usize % FSCALE.len()];
    let mesh_root = if fk != 1.0 { ctx.mul(root, fk).unwrap() } else { root };
    if fk != 1.0 {
        cx.ev.count("field_scaled_by_a_positive_constant");
    }
    let shape = Shape::<F>::new(&ctx, mesh_root).unwrap();
    let w2m = w2m_of(case);
    let pool = make_pool(case.threads);
    let settings = Settings {
        depth: case.depth,
        world_to_model: w2m,
        threads: pool.as_ref(),
        cancel: Default::default(),
    };
    let bound = shape
        .try_into()
        .map_err(|_| Fail::new("harness", "free variables"))?;

    // reference grid (spacing h/2) and preconditions
    let flat = Flat::new(&ctx, &[root]);
    let ri = flat.index[&root];
    let n = 1usize << (case.depth as usize + 1);
    let grid = RefGrid::new(&flat, ri, &w2m, n);
    if grid.touches_shell(n / 16 + 1) {
        cx.ev.count("rejected_surface_not_strictly_inside_region");
        return Ok(());
    }
    // ... and rigorously, whatever the depth: the 1-Lipschitz field must be
    // positive on the six faces of the region.  Faces are sampled on a 48 x 48
    // lattice; a sample whose value exceeds the model-space half-diagonal of a
    // lattice cell proves the field positive on that whole cell.  (The coarse
    // reference grid alone missed a box corner poking through a face at depth
    // 2, and the open mesh that results is not the mesher's fault.)
    {
        let stretch = ((w2m.fixed_view::<3, 3>(0, 0).determinant().abs() as f64)
            / (w2m[(3, 3)].abs() as f64).powi(3))
        .cbrt();
        const M: usize = 48;
        let margin = (std::f64::consts::SQRT_2 / 2.0) * (2.0 / M as f64) * stretch * 1.01;
        let mut vals = vec![];
        let c = |i: usize| -1.0 + (i as f32 + 0.5) * 2.0 / M as f32;
        for axis in 0..3 {
            for side in [-1.0f32, 1.0] {
                for a in 0..M {
                    for b in 0..M {
                        let mut p = [0.0f32; 3];
                        p[axis] = side;
                        p[(axis + 1) % 3] = c(a);
                        p[(axis + 2) % 3] = c(b);
                        let q = w2m.transform_point(&Point3::new(p[0], p[1], p[2]));
                        flat.eval_xyz(q.x, q.y, q.z, &mut vals);
                        if !((vals[ri] as f64) > margin) {
                            cx.ev.count("rejected_surface_not_strictly_inside_region");
                            cx.ev.count("rejected_by_the_face_lattice_test");
                            return Ok(());
                        }
                    }
                }
            }
        }
    }
    let octree = Octree::build::<F>(&bound, &settings)
        .ok_or_else(|| Fail::new("build-returned-none", "None without cancellation"))?;
    let mesh = octree.walk_dual();
    let st = mesh_stats(&mesh);
    cx.ev.count(&format!("depth_{}", case.depth));
    cx.ev.add("triangles", mesh.triangles.len() as u64);

    // (1) closed 2-manifold: demanded of every shape
    ensure!(
        st.nonfinite == 0,
        "nonfinite-vertex",
        "{} vertices have non-finite coordinates",
        st.nonfinite
    );
    for t in &mesh.triangles {
        ensure!(
            t.iter().all(|i| *i < mesh.vertices.len()),
            "index-out-of-range",
            "triangle {t:?} with {} vertices",
            mesh.vertices.len()
        );
    }
    ensure!(
        st.degenerate == 0,
        "degenerate-triangle",
        "{} triangles repeat a vertex index",
        st.degenerate
    );
    if st.dup_edges > 0 || st.unmatched_edges > 0 {
        let e = st.first_dup;
        // A pinched edge (directed edge used twice, mesh still closed) next to
        // a feature or gap thinner than about two cells is open finding F8;
        // anywhere else, or an open edge, is a violation.
        let mut key = if st.unmatched_edges > 0 { "open-edge" } else { "duplicate-directed-edge" };
        if st.unmatched_edges == 0 {
            // F8 is the classic dual-contouring pinch: two face-adjacent
            // finest-level cells share a face whose corner signs alternate and
            // each of them has a single vertex for all four face edges.  It is
            // recognised from the field alone: an ambiguous face of the finest
            // lattice within one cell of the pinched edge.
            let inv = w2m.try_inverse().unwrap();
            let cells = 1i32 << case.depth;
            let hw = 2.0 / cells as f32;
            let mut vals = vec![];
            let mut inside_at = |i: i32, j: i32, k: i32| -> bool {
                let q = Point3::new(-1.0 + i as f32 * hw, -1.0 + j as f32 * hw, -1.0 + k as f32 * hw);
                let p = w2m.transform_point(&q);
                flat.eval_xyz(p.x, p.y, p.z, &mut vals);
                vals[ri] < 0.0
            };
            let mut all_ambiguous = true;
            for (a, b) in st.dup_list.iter() {
                // the third vertex of every triangle on the pinched edge is an
                // edge-intersection point, i.e. it lies on the lattice edge of
                // the cells involved (the cell vertices themselves may have
                // escaped their cells, finding F9)
                let mut anchors: Vec<nalgebra::Vector3<f32>> = vec![];
                for t in &mesh.triangles {
                    let idx = [t.x, t.y, t.z];
                    if idx.contains(a) && idx.contains(b) {
                        for i in idx {
                            if i != *a && i != *b {
                                anchors.push(inv.transform_point(&Point3::from(mesh.vertices[i])).coords);
                            }
                        }
                    }
                }
                // Natural F8: exactly four triangles on the pinched edge, whose
                // edge-intersection vertices sit on the four edges of ONE
                // lattice face (side h * 2^level) with alternating corner signs
                let mut found = false;
                if anchors.len() == 4 {
                    'lv: for level in 0..1 {
                        let s_cells = (1i32 << level) as f32; // face side in finest cells
                        // cell coordinates of the anchors
                        let pts: Vec<[f32; 3]> = anchors
                            .iter()
                            .map(|m| [(m.x + 1.0) / hw, (m.y + 1.0) / hw, (m.z + 1.0) / hw])
                            .collect();
                        for axis in 0..3 {
                            // all anchors on one lattice plane normal to `axis`
                            let plane = pts[0][axis];
                            if (plane - plane.round()).abs() > 1e-3
                                || pts.iter().any(|p| (p[axis] - plane).abs() > 1e-3)
                            {
                                continue;
                            }
                            let (u, v) = ((axis + 1) % 3, (axis + 2) % 3);
                            let umin = pts.iter().map(|p| p[u]).fold(f32::INFINITY, f32::min);
                            let vmin = pts.iter().map(|p| p[v]).fold(f32::INFINITY, f32::min);
                            let u0 = ((umin + 1e-3) / s_cells).floor() * s_cells;
                            let v0 = ((vmin + 1e-3) / s_cells).floor() * s_cells;
                            // each anchor on an edge of the square [u0, u0+s] x [v0, v0+s]
                            let on_edge = |p: &[f32; 3]| {
                                let (pu, pv) = (p[u] - u0, p[v] - v0);
                                let e = 1e-3;
                                let inside = pu >= -e && pu <= s_cells + e && pv >= -e && pv <= s_cells + e;
                                inside
                                    && (pu.abs() < e || (pu - s_cells).abs() < e || pv.abs() < e || (pv - s_cells).abs() < e)
                            };
                            if !pts.iter().all(on_edge) {
                                continue;
                            }
                            let mut corner = |du: f32, dv: f32| {
                                let mut c = [0i32; 3];
                                c[axis] = plane.round() as i32;
                                c[u] = (u0 + du).round() as i32;
                                c[v] = (v0 + dv).round() as i32;
                                inside_at(c[0], c[1], c[2])
                            };
                            let sg = [corner(0.0, 0.0), corner(s_cells, 0.0), corner(s_cells, s_cells), corner(0.0, s_cells)];
                            if sg[0] == sg[2] && sg[1] == sg[3] && sg[0] != sg[1] {
                                // the table gives a cell one vertex per connected
                                // group of inside corners; the pinch is the known
                                // limitation only if, in BOTH finest cells sharing
                                // the face, the two inside corners of the face
                                // belong to the same group
                                let mut both = true;
                                for side in [-1i32, 0] {
                                    let mut base = [0i32; 3];
                                    base[axis] = plane.round() as i32 + side;
                                    base[u] = u0.round() as i32;
                                    base[v] = v0.round() as i32;
                                    let mut ins = [false; 8];
                                    for c in 0..8usize {
                                        ins[c] = inside_at(
                                            base[0] + (c & 1) as i32,
                                            base[1] + ((c >> 1) & 1) as i32,
                                            base[2] + ((c >> 2) & 1) as i32,
                                        );
                                    }
                                    // inside corners of the shared face
                                    let face_bit = if side == -1 { 1usize << axis } else { 0 };
                                    let on_face: Vec<usize> = (0..8)
                                        .filter(|c| (c & (1 << axis)) == face_bit && ins[*c])
                                        .collect();
                                    if on_face.len() != 2 {
                                        both = false;
                                        break;
                                    }
                                    // flood fill over cube edges between inside corners
                                    let mut seen = [false; 8];
                                    let mut stack = vec![on_face[0]];
                                    while let Some(c) = stack.pop() {
                                        if seen[c] {
                                            continue;
                                        }
                                        seen[c] = true;
                                        for ax in 0..3 {
                                            let n = c ^ (1 << ax);
                                            if ins[n] && !seen[n] {
                                                stack.push(n);
                                            }
                                        }
                                    }
                                    if !seen[on_face[1]] {
                                        both = false;
                                    }
                                }
                                if both {
                                    found = true;
                                    break 'lv;
                                }
                            }
                        }
                    }
                }
                all_ambiguous &= found;
            }
            if all_ambiguous {
                key = "F8-duplicate-directed-edge";
            }
        }
        let msg = format!(
            "{} directed edges occur more than once, {} edges lack a matching reverse ({} triangles, depth {}); first duplicate {:?} = {:?}",
            st.dup_edges,
            st.unmatched_edges,
            mesh.triangles.len(),
            case.depth,
            e,
            e.map(|e| (mesh.vertices[e.0], mesh.vertices[e.1]))
        );
        if key == "F8-duplicate-directed-edge" && cx.known(key) {
            return Ok(());
        }
        fail!(key, "{msg}");
    }

    // QEF vertices are unclamped by design (finding F9): a vertex that has
    // escaped far from the surface invalidates the geometric checks below.
    // The CSG fields are 1-Lipschitz, so |f(v)| bounds the distance from below.
    let h = 2.0 / (1u32 << case.depth) as f64;
    // volume factor of the map p -> (A p + t) / w (bottom row 0 0 0 w)
    let scale = (w2m.fixed_view::<3, 3>(0, 0).determinant().abs() as f64) / (w2m[(3, 3)].abs() as f64).powi(3);
    let lin = scale.cbrt();
    let v_ref = grid.count() as f64 * (2.0 / n as f64).powi(3) * scale;
    let a_ref = grid.boundary_faces() as f64 * (2.0 / n as f64).powi(2) * lin * lin / 1.5;
    let mut vals = vec![];
    let mut worst = 0.0f64;
    // Without a transform (the matrix is w * identity), world and model
    // coordinates coincide.  An edge intersection is found between an inside
    // and an outside sample h / 15^4 apart on an edge of the finest lattice, so
    // the 1-Lipschitz field cannot exceed that distance there.  Edge
    // intersections are recognised by position AND by role: two or more
    // coordinates exactly on the finest lattice, and at most 4 neighbours (the
    // centre of the triangle fan around one octree edge, which has at most 4
    // adjacent cells).  A cell vertex has at least 6 neighbours (>= 3 crossing
    // edges, each contributing its intersection and a neighbouring cell
    // vertex) and is not constrained by this clause: the centre of a collapsed
    // cell lies on the finest lattice too, and unclamped cell vertices are
    // finding F9.
    let plain = case.xform.is_none() && case.wscale % 8 < 4;
    let cells = (1u32 << case.depth) as f32;
    let on_lattice = |c: f32| {
        let k = (c + 1.0) * cells / 2.0;
        k == k.round() && (0.0..=cells).contains(&k)
    };
    for (vi, v) in mesh.vertices.iter().enumerate() {
        flat.eval_xyz(v.x, v.y, v.z, &mut vals);
        let d = (vals[ri].abs() as f64) / (h * lin);
        if d > worst {
            worst = d;
        }
        if plain && [v.x, v.y, v.z].iter().filter(|c| on_lattice(**c)).count() >= 2 {
            cx.ev.count("lattice_line_vertices");
            if d > 0.02 && d.is_finite() {
                let mut nb: Vec<usize> = vec![];
                for t in &mesh.triangles {
                    let idx = [t.x, t.y, t.z];
                    if idx.contains(&vi) {
                        for j in idx {
                            if j != vi && !nb.contains(&j) {
                                nb.push(j);
                            }
                        }
                    }
                }
                if nb.len() > 4 {
                    cx.ev.count("off_surface_lattice_vertices_that_are_cell_vertices");
                    continue;
                }
                fail!(
                    "intersection-vertex-off-surface",
                    "vertex {:?} lies on an edge of the depth-{} lattice and is the centre of a fan of {} triangles (an edge intersection), but the field there is {} = {:.3} cells (edge intersections are located to h / 50625)",
                    v,
                    case.depth,
                    nb.len(),
                    vals[ri],
                    d
                );
            }
        }
    }
    cx.ev.max("max_vertex_field_over_h_x1000", (worst * 1000.0) as u64);
    // resolution gate: no feature or gap thinner than about two cells
    let thin = grid.thin_samples(2.0, 3.6);
    if thin > 0 || grid.count() == 0 {
        cx.ev.count("unresolved_at_this_depth_geometry_not_demanded");
        if worst > 1.0 {
            cx.ev.count("unresolved_meshes_with_escaped_qef_vertex");
        }
        return Ok(());
    }
    cx.ev.count("resolved");
    if worst > 1.5 {
        cx.ev.count("meshes_with_escaped_qef_vertex");
        if cx.known("F9-unclamped-qef-vertex") {
            return Ok(());
        }
        fail!(
            "F9-unclamped-qef-vertex",
            "a mesh vertex lies {:.2} cells away from the surface (|f(v)| = {:.2} h) at depth {}",
            worst,
            worst,
            case.depth
        );
    }
    cx.ev.count("meshes_fully_checked");
    // (2) orientation
    ensure!(
        mesh.triangles.is_empty() || st.volume > 0.0 || v_ref < 0.5 * a_ref.max(st.area) * h * lin,
        "inverted-volume",
        "signed volume {} (reference {v_ref})",
        st.volume
    );
    let mut good = 0.0f64;
    let mut total = 0.0f64;
    for t in &mesh.triangles {
        let (a, b, c) = (
            mesh.vertices[t.x],
            mesh.vertices[t.y],
            mesh.vertices[t.z],
        );
        let nrm: Vector3<f32> = (b - a).cross(&(c - a));
        let ar = nrm.norm() as f64 / 2.0;
        if ar == 0.0 || !ar.is_finite() {
            continue;
        }
        let nh = nrm.normalize();
        let cen = (a + b + c) / 3.0;
        let eps = (h * lin / 16.0) as f32;
        let pp = cen + nh * eps;
        let pm = cen - nh * eps;
        flat.eval_xyz(pp.x, pp.y, pp.z, &mut vals);
        let fp = vals[ri];
        flat.eval_xyz(pm.x, pm.y, pm.z, &mut vals);
        let fm = vals[ri];
        total += ar;
        if fp > fm {
            good += ar;
        }
    }
    if total > 0.0 {
        cx.ev.max(
            "max_area_fraction_with_inward_normal_x1000",
            (1000.0 * (1.0 - good / total)) as u64,
        );
        ensure!(
            good / total > 0.5,
            "winding-inward",
            "only {:.1}% of the mesh area has the shape increasing along the triangle normal",
            100.0 * good / total
        );
    }
    // (3) volume
    let a = st.area.max(a_ref);
    let tol = 0.5 * a * h * lin + 1e-6;
    cx.ev.max(
        "max_volume_error_over_area_times_h_x1000",
        (1000.0 * (st.volume - v_ref).abs() / (a * h * lin).max(1e-9)) as u64,
    );
    ensure!(
        (st.volume - v_ref).abs() <= tol,
        "volume-mismatch",
        "mesh volume {} vs reference {} (area {}, h {}, tolerance {})",
        st.volume,
        v_ref,
        a,
        h,
        tol
    );
    if case.shape.primitives() >= 2 && !mesh.triangles.is_empty() {
        cx.ev.nontrivial(case);
    }
    Ok(())
}

impl Prop for P {
    const ID: &'static str = "C08";
    type Case = Case;

    fn strategy(tier: Tier) -> BoxedStrategy<Case> {
        (
            prop_oneof![
                2 => csg::csg(3, 0.4, 0.2, 0.5, false),
                3 => csg::csg(2, 0.3, 0.3, 0.6, false),
                1 => csg::csg(1, 0.25, 0.35, 0.7, false),
            ],
            prop_oneof![1 => 1u8..=2, 3 => Just(3u8), 4 => Just(4u8), 4 => Just(5u8), 1 => Just(tier.pick(5u8, 6u8))],
            prop_oneof![
                1 => Just(None),
                2 => xform_strategy().prop_map(|x| x.map(|(a, ang, s, t)| {
                    // orientation preserving, model region not smaller than the unit cube
                    (a, ang, Fl(1.0 + (s.0 - 0.5) * 0.3), [Fl(t[0].0 * 0.2), Fl(t[1].0 * 0.2), Fl(t[2].0 * 0.2)])
                })),
            ],
            any::<bool>(),
            prop_oneof![3 => Just(0u8), 2 => Just(1u8), 1 => 2u8..=5],
            prop_oneof![3 => Just(0u8), 1 => 1u8..=3, 1 => 4u8..=7],
            prop_oneof![3 => Just(0u8), 2 => 1u8..=5],
        )
            .prop_map(|(shape, depth, xform, jit, threads, wscale, fscale)| Case {
                shape,
                depth,
                xform,
                jit,
                threads,
                wscale,
                fscale,
            })
            .boxed()
    }

    fn check(case: &Case, cx: &mut Cx) -> CheckResult {
        if case.jit {
            run::<JitFunction>(case, cx)
        } else {
            run::<VmFunction>(case, cx)
        }
    }

    fn reduce(case: &Case) -> Vec<Case> {
        let mut out = vec![];
        let mut c = case.clone();
        c.threads = 0;
        out.push(c);
        if case.xform.is_some() {
            let mut c = case.clone();
            c.xform = None;
            out.push(c);
        }
        if case.jit {
            let mut c = case.clone();
            c.jit = false;
            out.push(c);
        }
        match &case.shape {
            Csg::Union(a, b) | Csg::Inter(a, b) | Csg::Diff(a, b) => {
                for s in [a, b] {
                    let mut c = case.clone();
                    c.shape = (**s).clone();
                    out.push(c);
                }
            }
            _ => {}
        }
        out
    }

    /// Cones whose apex (0/0 gradient) sits on octree grid lines, and one sphere
    /// per depth, before the random cases
    fn fixed_cases(_tier: Tier) -> Vec<Case> {
        let mut out = vec![];
        for depth in 1..=5u8 {
            for apex in [[0.0f32, 0.0, 0.0], [0.0, 0.0, 0.25], [0.25, -0.25, 0.125], [0.1, 0.0, 0.3]] {
                for jit in [false, true] {
                    out.push(Case {
                        shape: Csg::Cone {
                            apex: [Fl(apex[0]), Fl(apex[1]), Fl(apex[2])],
                            k: Fl(0.8),
                            h: Fl(0.6),
                        },
                        depth,
                        xform: None,
                        jit,
                        threads: 0,
                        wscale: 0,
                        fscale: 0,
                    });
                }
            }
            out.push(Case {
                shape: Csg::Sphere {
                    c: [Fl(0.0), Fl(0.0), Fl(0.0)],
                    r: Fl(0.6),
                },
                depth,
                xform: None,
                jit: false,
                threads: 0,
                wscale: depth % 4,
                fscale: depth % 6,
            });
        }
        out
    }

    fn plan(tier: Tier) -> Plan {
        match tier {
            Tier::Quick => Plan {
                workers: 16,
                cases_per_worker: 150,
                timeout_s: 1800,
                max_shrink_iters: 60,
            },
            Tier::Thorough => Plan {
                workers: 16,
                cases_per_worker: 3000,
                timeout_s: 14400,
                max_shrink_iters: 60,
            },
        }
    }

    fn rule() -> &'static str {
        "generated CSG (depth <= 3) of spheres, boxes, exact-distance boxes (NaN gradient on every face), capped cylinders, cones and skew ellipsoids, the field optionally scaled by a positive constant, with centres in [-0.45, 0.45]^3 and sizes \
         0.12-0.4, octree depth 1..=5 (thorough 6), world-to-model = identity or translate*rotate*scale (orientation \
         preserving), interpreter or JIT, no pool / global / custom pool. Precondition checked on a reference grid (spacing \
         h/2): no inside sample in the outer shell of the region, and the 1-Lipschitz field provably positive on the six faces of the region (48 x 48 lattice per face, value above the half-diagonal of a lattice cell), else the case is rejected and counted. Oracle: (1) always: \
         all coordinates finite, no triangle repeats an index, every directed edge occurs exactly once and its reverse exactly \
         once; without a transform, every vertex on an edge of the finest lattice (an edge intersection) within 0.02 cells of the surface; (2)-(3) for shapes resolved at this depth (on the reference grid, no inside or outside sample lies farther than \
         1.8h from the part of its set that is more than h away from the other set: no feature or gap thinner than about \
         two cells) and whose mesh has no vertex more than 1.5 cells from the surface (|f(v)| <= 1.5h for the 1-Lipschitz CSG \
         field; escaped QEF vertices are finding F9): signed volume positive, \
         >= 50% of the area has the field increasing along the normal, |mesh volume - reference volume| <= 0.5*A*h. \
         Non-trivial = at least two primitives, fully checked, non-empty mesh."
    }

    fn assumptions() -> Vec<&'static str> {
        vec![
            "orientation / volume / vertex-in-region are demanded only of meshes without an escaped QEF vertex (|f(v)| > h), which is open finding F9",
        ]
    }
}

#[allow(dead_code)]
fn _unused(_: gens::DagParams) {}

/// Debug helper: prints the neighbourhood of pinched edges
pub fn debug(case: &Case) {
    let mut ctx = Context::new();
    let root = case.shape.build(&mut ctx);
    let shape = Shape::<VmFunction>::new(&ctx, root).unwrap();
    let w2m = w2m_of(case);
    let settings = Settings {
        depth: case.depth,
        world_to_model: w2m,
        threads: None,
        cancel: Default::default(),
    };
    let bound = shape.try_into().ok().unwrap();
    let octree = Octree::build::<VmFunction>(&bound, &settings).unwrap();
    let mesh = octree.walk_dual();
    let st = mesh_stats(&mesh);
    let inv = w2m.try_inverse().unwrap();
    let cells = (1u32 << case.depth) as f32;
    let cell_of = |v: Vector3<f32>| {
        let q = inv.transform_point(&Point3::from(v));
        [(q.x + 1.0) * cells / 2.0, (q.y + 1.0) * cells / 2.0, (q.z + 1.0) * cells / 2.0]
    };
    println!("depth {} triangles {} dup {:?}", case.depth, mesh.triangles.len(), st.dup_list);
    for (a, b) in &st.dup_list {
        println!("edge {a}->{b}: {:?} -> {:?} (cell coords)", cell_of(mesh.vertices[*a]), cell_of(mesh.vertices[*b]));
        for t in &mesh.triangles {
            let idx = [t.x, t.y, t.z];
            if idx.contains(a) && idx.contains(b) {
                let third = idx.iter().find(|i| *i != a && *i != b).unwrap();
                println!("   tri {:?}  third {third} at {:?}", idx, cell_of(mesh.vertices[*third]));
            }
        }
    }
    // lattice signs around the first pinch
    if let Some((a, b)) = st.dup_list.first() {
        let flat = Flat::new(&ctx, &[root]);
        let ri = flat.index[&root];
        let ca = cell_of(mesh.vertices[*a]);
        let cb = cell_of(mesh.vertices[*b]);
        let lo: Vec<i32> = (0..3).map(|i| ca[i].min(cb[i]).floor() as i32 - 1).collect();
        let hi: Vec<i32> = (0..3).map(|i| ca[i].max(cb[i]).ceil() as i32 + 1).collect();
        let mut vals = vec![];
        for k in lo[2]..=hi[2] {
            println!(" z = {k}");
            for j in (lo[1]..=hi[1]).rev() {
                let mut line = format!("  y={j:3} ");
                for i in lo[0]..=hi[0] {
                    let q = Point3::new(-1.0 + i as f32 * 2.0 / cells, -1.0 + j as f32 * 2.0 / cells, -1.0 + k as f32 * 2.0 / cells);
                    let p = w2m.transform_point(&q);
                    flat.eval_xyz(p.x, p.y, p.z, &mut vals);
                    line += if vals[ri] < 0.0 { "#" } else { "." };
                }
                println!("{line}   (x from {})", lo[0]);
            }
        }
    }
}
