#![allow(dead_code)]
use fv::engine::*;
use fv::*;
use std::path::PathBuf;

// guard-page allocation inside `galloc::with_guard` sections (see galloc.rs)
#[global_allocator]
static ALLOC: fv::galloc::GuardAlloc = fv::galloc::GuardAlloc;

macro_rules! for_prop {
    ($id:expr, $f:ident, $($arg:expr),*) => {
        match $id {
            "C01" => $f::<p01::P>($($arg),*),
            "C02" => $f::<p02::P>($($arg),*),
            "C03" => $f::<p03::P>($($arg),*),
            "C04" => $f::<p04::P>($($arg),*),
            "C05" => $f::<p05::P>($($arg),*),
            "C06" => $f::<p06::P>($($arg),*),
            "C07" => $f::<p07::P>($($arg),*),
            "C08" => $f::<p08::P>($($arg),*),
            "C09" => $f::<p09::P>($($arg),*),
            "C10" => $f::<p10::P>($($arg),*),
            "C11" => $f::<p11::P>($($arg),*),
            "C12" => $f::<p12::P>($($arg),*),
            "C13" => $f::<p13::P>($($arg),*),
            "C14" => $f::<p14::P>($($arg),*),
            "C15" => $f::<p15::P>($($arg),*),
            "C16" => $f::<p16::P>($($arg),*),
            "C17" => $f::<p17::P>($($arg),*),
            "C18" => $f::<p18::P>($($arg),*),
            "C19" => $f::<p19::P>($($arg),*),
            "C20" => $f::<p20::P>($($arg),*),
            other => {
                eprintln!("unknown property {other}");
                std::process::exit(2)
            }
        }
    };
}

fn replay_file(path: &std::path::Path, strict: bool) -> i32 {
    let rf: ReplayFile =
        serde_json::from_str(&std::fs::read_to_string(path).expect("read replay file"))
            .expect("parse replay file");
    let id = rf.property.clone();
    let r = for_prop!(id.as_str(), replay_case, &rf.case, strict);
    match r {
        Ok(()) => {
            println!("PASS {id} {}", path.display());
            0
        }
        Err(f) => {
            println!("FAIL {}", serde_json::to_string(&f).unwrap());
            println!("VIOLATION property={id} replay={}", path.display());
            println!("  signature: {}", f.sig);
            println!("  {}", f.msg);
            1
        }
    }
}

fn main() {
    let args: Vec<String> = std::env::args().collect();
    let seed: u64 = std::env::var("VERIF_SEED")
        .ok()
        .and_then(|s| s.parse::<i64>().ok().map(|v| v as u64).or_else(|| s.parse().ok()))
        .unwrap_or(1);
    let code = match args.get(1).map(|s| s.as_str()) {
        Some("run") => {
            let id = args[2].as_str();
            let tier = Tier::parse(&args[3]);
            for_prop!(id, parent, tier, seed)
        }
        Some("worker") => {
            let id = args[2].as_str();
            let a = WorkerArgs {
                tier: Tier::parse(&args[3]),
                seed: args[4].parse().unwrap(),
                index: args[5].parse().unwrap(),
                cases: args[6].parse().unwrap(),
                out: PathBuf::from(&args[7]),
                crumb: PathBuf::from(&args[8]),
            };
            for_prop!(id, worker, a)
        }
        Some("replay") => {
            // crash-safe replay: run in a child, report signals
            let path = PathBuf::from(&args[2]);
            let strict = args.iter().any(|a| a == "--strict");
            match replay_in_child(&path, strict) {
                ReplayOutcome::Pass => {
                    println!("PASS {}", path.display());
                    0
                }
                ReplayOutcome::Fail(f) => {
                    let rf: ReplayFile = serde_json::from_str(
                        &std::fs::read_to_string(&path).unwrap(),
                    )
                    .unwrap();
                    println!("VIOLATION property={} replay={}", rf.property, path.display());
                    println!("  signature: {}", f.sig);
                    println!("  {}", f.msg);
                    1
                }
                ReplayOutcome::Timeout(t) => {
                    println!("INCONCLUSIVE replay of {} did not finish within {t} s", path.display());
                    2
                }
                ReplayOutcome::Crash(c) => {
                    let rf: ReplayFile = serde_json::from_str(
                        &std::fs::read_to_string(&path).unwrap(),
                    )
                    .unwrap();
                    println!("VIOLATION property={} replay={}", rf.property, path.display());
                    println!("  crash: {c}");
                    1
                }
            }
        }
        Some("debug-c04") => {
            let rf: ReplayFile = serde_json::from_str(&std::fs::read_to_string(&args[2]).unwrap()).unwrap();
            let case: p04::Case = serde_json::from_value(rf.case).unwrap();
            p04::debug(&case);
            0
        }
        Some("debug-c08") => {
            let rf: ReplayFile = serde_json::from_str(&std::fs::read_to_string(&args[2]).unwrap()).unwrap();
            let case: p08::Case = serde_json::from_value(rf.case).unwrap();
            p08::debug(&case);
            0
        }
        Some("fuzz-decode") => {
            // the case a libFuzzer input decodes to (see src/fuzzing.rs)
            let id = args[2].as_str();
            let data = std::fs::read(&args[3]).expect("read input");
            fn dec<P: Prop>(data: &[u8]) -> i32 {
                match fv::fuzzing::decode_to_value::<P>(data) {
                    Some(v) => {
                        println!("{}", serde_json::to_string(&v).unwrap());
                        0
                    }
                    None => {
                        eprintln!("the generator rejected this input");
                        3
                    }
                }
            }
            for_prop!(id, dec, &data)
        }
        Some("fuzz-merge") => {
            // fv fuzz-merge <ID> <workdir> <seconds> <jobs> <status>: fold the
            // coverage-guided stage's own counters into evidence/<ID>.json
            let id = args[2].as_str();
            let work = PathBuf::from(&args[3]);
            let mut execs = 0u64;
            let mut rejected = 0u64;
            let mut fps = std::collections::BTreeSet::<u64>::new();
            let mut classes = std::collections::BTreeMap::<String, u64>::new();
            let mut known = std::collections::BTreeMap::<String, u64>::new();
            let mut samples: Vec<serde_json::Value> = vec![];
            let mut procs = 0u64;
            if let Ok(rd) = std::fs::read_dir(&work) {
                for e in rd.flatten() {
                    let name = e.file_name().to_string_lossy().to_string();
                    if !name.starts_with("fuzz_evidence.") {
                        continue;
                    }
                    let Ok(txt) = std::fs::read_to_string(e.path()) else { continue };
                    let Ok(v) = serde_json::from_str::<serde_json::Value>(&txt) else { continue };
                    procs += 1;
                    execs += v["executions_decoded"].as_u64().unwrap_or(0);
                    rejected += v["inputs_rejected_by_generator"].as_u64().unwrap_or(0);
                    if let Some(a) = v["nontrivial_fingerprints"].as_array() {
                        fps.extend(a.iter().filter_map(|x| x.as_u64()));
                    }
                    for (key, dst) in [("classes", &mut classes), ("known_finding_hits_excluded", &mut known)] {
                        if let Some(m) = v[key].as_object() {
                            for (k, n) in m {
                                let n = n.as_u64().unwrap_or(0);
                                let slot = dst.entry(k.clone()).or_insert(0);
                                if k.starts_with("max_") {
                                    *slot = (*slot).max(n);
                                } else {
                                    *slot += n;
                                }
                            }
                        }
                    }
                    if samples.len() < 2 {
                        if let Some(a) = v["samples"].as_array() {
                            samples.extend(a.iter().take(1).cloned());
                        }
                    }
                }
            }
            // libFuzzer's own final statistics, from the job logs
            let mut lf_execs = 0u64;
            let mut lf_new = 0u64;
            let mut max_cov = 0u64;
            let mut max_ft = 0u64;
            if let Ok(rd) = std::fs::read_dir(&work) {
                for e in rd.flatten() {
                    if !e.file_name().to_string_lossy().ends_with(".log") {
                        continue;
                    }
                    let Ok(txt) = std::fs::read_to_string(e.path()) else { continue };
                    for l in txt.lines() {
                        if let Some(r) = l.strip_prefix("stat::number_of_executed_units:") {
                            lf_execs += r.trim().parse::<u64>().unwrap_or(0);
                        } else if let Some(r) = l.strip_prefix("stat::new_units_added:") {
                            lf_new += r.trim().parse::<u64>().unwrap_or(0);
                        } else if l.starts_with('#') && l.contains(" cov: ") {
                            let w: Vec<&str> = l.split_whitespace().collect();
                            for i in 0..w.len().saturating_sub(1) {
                                if w[i] == "cov:" {
                                    max_cov = max_cov.max(w[i + 1].parse().unwrap_or(0));
                                }
                                if w[i] == "ft:" {
                                    max_ft = max_ft.max(w[i + 1].parse().unwrap_or(0));
                                }
                            }
                        }
                    }
                }
            }
            let corpus = std::fs::read_dir(work.join("corpus")).map(|d| d.count()).unwrap_or(0);
            let path = verif_dir().join("evidence").join(format!("{id}.json"));
            let mut ev: serde_json::Value =
                serde_json::from_str(&std::fs::read_to_string(&path).expect("evidence file of the random campaign"))
                    .expect("parse evidence");
            ev["coverage"]["coverage_guided_stage"] = serde_json::json!({
                "engine": "libFuzzer (cargo-fuzz, ASan build); the input bytes are the random stream of the property's own proptest strategy, the oracle is the property's check",
                "status": args[6],
                "seconds_per_job": args[4].parse::<u64>().unwrap_or(0),
                "jobs": args[5].parse::<u64>().unwrap_or(0),
                "processes_reporting": procs,
                "executions": lf_execs,
                "executions_decoded_and_checked": execs,
                "inputs_rejected_by_generator": rejected,
                "distinct_nontrivial": fps.len(),
                "new_corpus_units": lf_new,
                "corpus_files": corpus,
                "edge_coverage": max_cov,
                "features": max_ft,
                "classes": classes,
                "known_finding_hits_excluded": known,
                "samples": samples,
            });
            std::fs::write(&path, serde_json::to_string_pretty(&ev).unwrap()).unwrap();
            println!(
                "{id} coverage-guided stage: {lf_execs} executions ({execs} checked, {} distinct non-trivial), corpus {corpus}, cov {max_cov}, ft {max_ft}, status {}",
                fps.len(),
                args[6]
            );
            0
        }
        Some("replay-inner") => {
            let strict = args.iter().any(|a| a == "--strict");
            replay_file(&PathBuf::from(&args[2]), strict)
        }
        _ => {
            eprintln!("usage: fv run <ID> <quick|thorough> | fv replay <file> [--strict]");
            2
        }
    };
    std::process::exit(code);
}
