#![allow(dead_code)]
use fv::engine::*;
use fv::*;
use std::path::PathBuf;

macro_rules! for_prop {
    ($id:expr, $f:ident, $($arg:expr),*) => {
        match $id {
            "C01" => $f::<p01::P>($($arg),*),
            "C02" => $f::<p02::P>($($arg),*),
            "C03" => $f::<p03::P>($($arg),*),
            "C04" => $f::<p04::P>($($arg),*),
            "C05" => $f::<p05::P>($($arg),*),
            "C06" => $f::<p06::P>($($arg),*),
            "C07" => $f::<p07::P>($($arg),*),
            "C08" => $f::<p08::P>($($arg),*),
            "C09" => $f::<p09::P>($($arg),*),
            "C10" => $f::<p10::P>($($arg),*),
            "C11" => $f::<p11::P>($($arg),*),
            "C12" => $f::<p12::P>($($arg),*),
            "C13" => $f::<p13::P>($($arg),*),
            "C14" => $f::<p14::P>($($arg),*),
            "C15" => $f::<p15::P>($($arg),*),
            "C16" => $f::<p16::P>($($arg),*),
            "C17" => $f::<p17::P>($($arg),*),
            "C18" => $f::<p18::P>($($arg),*),
            "C19" => $f::<p19::P>($($arg),*),
            "C20" => $f::<p20::P>($($arg),*),
            other => {
                eprintln!("unknown property {other}");
                std::process::exit(2)
            }
        }
    };
}

fn replay_file(path: &std::path::Path, strict: bool) -> i32 {
    let rf: ReplayFile =
        serde_json::from_str(&std::fs::read_to_string(path).expect("read replay file"))
            .expect("parse replay file");
    let id = rf.property.clone();
    let r = for_prop!(id.as_str(), replay_case, &rf.case, strict);
    match r {
        Ok(()) => {
            println!("PASS {id} {}", path.display());
            0
        }
        Err(f) => {
            println!("FAIL {}", serde_json::to_string(&f).unwrap());
            println!("VIOLATION property={id} replay={}", path.display());
            println!("  signature: {}", f.sig);
            println!("  {}", f.msg);
            1
        }
    }
}

fn main() {
    let args: Vec<String> = std::env::args().collect();
    let seed: u64 = std::env::var("VERIF_SEED")
        .ok()
        .and_then(|s| s.parse::<i64>().ok().map(|v| v as u64).or_else(|| s.parse().ok()))
        .unwrap_or(1);
    let code = match args.get(1).map(|s| s.as_str()) {
        Some("run") => {
            let id = args[2].as_str();
            let tier = Tier::parse(&args[3]);
            for_prop!(id, parent, tier, seed)
        }
        Some("worker") => {
            let id = args[2].as_str();
            let a = WorkerArgs {
                tier: Tier::parse(&args[3]),
                seed: args[4].parse().unwrap(),
                index: args[5].parse().unwrap(),
                cases: args[6].parse().unwrap(),
                out: PathBuf::from(&args[7]),
                crumb: PathBuf::from(&args[8]),
            };
            for_prop!(id, worker, a)
        }
        Some("replay") => {
            // crash-safe replay: run in a child, report signals
            let path = PathBuf::from(&args[2]);
            let strict = args.iter().any(|a| a == "--strict");
            match replay_in_child(&path, strict) {
                ReplayOutcome::Pass => {
                    println!("PASS {}", path.display());
                    0
                }
                ReplayOutcome::Fail(f) => {
                    let rf: ReplayFile = serde_json::from_str(
                        &std::fs::read_to_string(&path).unwrap(),
                    )
                    .unwrap();
                    println!("VIOLATION property={} replay={}", rf.property, path.display());
                    println!("  signature: {}", f.sig);
                    println!("  {}", f.msg);
                    1
                }
                ReplayOutcome::Crash(c) => {
                    let rf: ReplayFile = serde_json::from_str(
                        &std::fs::read_to_string(&path).unwrap(),
                    )
                    .unwrap();
                    println!("VIOLATION property={} replay={}", rf.property, path.display());
                    println!("  crash: {c}");
                    1
                }
            }
        }
        Some("debug-c04") => {
            let rf: ReplayFile = serde_json::from_str(&std::fs::read_to_string(&args[2]).unwrap()).unwrap();
            let case: p04::Case = serde_json::from_value(rf.case).unwrap();
            p04::debug(&case);
            0
        }
        Some("debug-c08") => {
            let rf: ReplayFile = serde_json::from_str(&std::fs::read_to_string(&args[2]).unwrap()).unwrap();
            let case: p08::Case = serde_json::from_value(rf.case).unwrap();
            p08::debug(&case);
            0
        }
        Some("replay-inner") => {
            let strict = args.iter().any(|a| a == "--strict");
            replay_file(&PathBuf::from(&args[2]), strict)
        }
        _ => {
            eprintln!("usage: fv run <ID> <quick|thorough> | fv replay <file> [--strict]");
            2
        }
    };
    std::process::exit(code);
}
