//! C01 — compiled tapes compute exactly the expression they were built from
use crate::build::*;
use crate::engine::*;
use crate::gens;
use crate::refsem::same;
use crate::spec::*;
use crate::{ensure, fail};
use fidget_core::compiler::RegOp;
use fidget_core::context::{BinaryOpcode, Node, Op, UnaryOpcode};
use fidget_core::eval::{BulkEvaluator, Function, MathFunction, TracingEvaluator};
use fidget_core::vm::GenericVmFunction;
use proptest::collection::vec;
use proptest::prelude::*;
use serde::{Deserialize, Serialize};
use std::collections::{HashMap, HashSet};

pub const BUDGETS: [usize; 11] = [1, 2, 3, 4, 5, 6, 8, 12, 16, 32, 255];

#[derive(Clone, Debug, Serialize, Deserialize)]
pub struct Case {
    pub dag: DagSpec,
    /// None: every distinct node is an output; Some: selectors into
    /// variables ++ nodes (may select inputs, constants, duplicates)
    pub outs: Option<Vec<u16>>,
    pub points: Vec<Vec<Fl>>,
    /// index into BUDGETS
    pub budget: usize,
}

pub struct P;

pub fn roots_of(b: &Built, outs: &Option<Vec<u16>>) -> Vec<Node> {
    match outs {
        None => {
            if b.distinct.is_empty() {
                vec![b.nodes.last().copied().unwrap()]
            } else {
                b.distinct.clone()
            }
        }
        Some(sels) => {
            // variables first, then nodes (same pool as operand selection)
            let mut pool: Vec<Node> = b.var_nodes.clone();
            pool.extend(b.nodes.iter().cloned());
            let mut r: Vec<Node> = sels
                .iter()
                .map(|s| pool[sel_index(*s, pool.len())])
                .collect();
            if r.is_empty() {
                r.push(*pool.last().unwrap());
            }
            r
        }
    }
}

fn run<const N: usize>(case: &Case, cx: &mut Cx) -> CheckResult {
    // many-variable programs: the 8 generated coordinates are extended
    let widened;
    let case = if case.dag.nvars as usize > 8 {
        let mut c = case.clone();
        c.points = gens::widen_points(&case.points, case.dag.nvars as usize);
        widened = c;
        cx.ev.count("programs_with_more_than_32_variables_or_8");
        &widened
    } else {
        case
    };
    let b = build_dag(&case.dag);
    let roots = roots_of(&b, &case.outs);
    // N < 3 may refuse loudly
    let f = if N < 3 {
        let r = std::panic::catch_unwind(|| GenericVmFunction::<N>::new(&b.ctx, &roots));
        match r {
            Ok(f) => f.unwrap(),
            Err(_) => {
                let _ = take_last_panic();
                cx.ev.count("budget_below_3_refused_loudly");
                return Ok(());
            }
        }
    } else {
        GenericVmFunction::<N>::new(&b.ctx, &roots).unwrap()
    };
    ensure!(
        f.output_count() == roots.len(),
        "output-count",
        "output_count {} != {}",
        f.output_count(),
        roots.len()
    );

    // classify
    let mut loads = 0;
    let mut stores = 0;
    let mut forms = [0usize; 3]; // regreg, regimm, immreg-ish
    for op in f.data().iter_asm() {
        match op {
            RegOp::Load(..) => loads += 1,
            RegOp::Store(..) => stores += 1,
            _ => {}
        }
        let s = format!("{op:?}");
        if s.contains("RegReg") {
            forms[0] += 1
        } else if s.contains("RegImm") {
            forms[1] += 1
        } else if s.contains("ImmReg") {
            forms[2] += 1
        }
    }
    let shared = {
        let mut parents: HashMap<Node, usize> = HashMap::new();
        for n in topo(&b.ctx, &roots) {
            for c in b.ctx.get_op(n).unwrap().iter_children() {
                *parents.entry(c).or_default() += 1;
            }
        }
        parents.values().any(|c| *c >= 2)
    };
    cx.ev.count(&format!("budget_{N}"));
    if loads > 0 {
        cx.ev.count("tapes_with_spills");
        cx.ev.add("spill_loads", loads);
        cx.ev.add("spill_stores", stores);
        cx.ev.max("max_spill_loads_in_one_tape", loads);
    }
    if forms[1] > 0 {
        cx.ev.count("tapes_with_reg_imm");
    }
    if forms[2] > 0 {
        cx.ev.count("tapes_with_imm_reg");
    }
    if roots.len() >= 2 {
        cx.ev.count("multi_output");
    }
    if roots
        .iter()
        .any(|r| matches!(b.ctx.get_op(*r), Some(Op::Const(..))))
    {
        cx.ev.count("constant_as_output");
    }
    if roots
        .iter()
        .any(|r| matches!(b.ctx.get_op(*r), Some(Op::Input(..))))
    {
        cx.ev.count("input_as_output");
    }
    if roots.iter().collect::<HashSet<_>>().len() < roots.len() {
        cx.ev.count("duplicate_outputs");
    }
    if loads > 0 || roots.len() >= 2 || shared {
        cx.ev.nontrivial(case);
    }

    // inputs in the function's own variable order
    let vm = f.vars();
    let nin = vm.len();
    let mut order: Vec<Option<usize>> = vec![None; nin]; // slot -> spec var index
    for (i, v) in b.vars.iter().enumerate() {
        if let Some(slot) = vm.get(v) {
            ensure!(slot < nin, "varmap", "slot {slot} out of range {nin}");
            ensure!(order[slot].is_none(), "varmap", "slot {slot} assigned twice");
            order[slot] = Some(i);
        }
    }
    ensure!(
        order.iter().all(|o| o.is_some()),
        "varmap",
        "variable map has holes: {order:?}"
    );

    let tape_p = f.point_tape(Default::default());
    let tape_s = f.float_slice_tape(Default::default());
    let mut pe = GenericVmFunction::<N>::new_point_eval();
    let mut se = GenericVmFunction::<N>::new_float_slice_eval();

    // point evaluation + reference
    let mut expected: Vec<Vec<f32>> = vec![]; // per point, per root
    let mut tainted: Vec<Vec<bool>> = vec![];
    let mut nan_tainted: Vec<Vec<bool>> = vec![];
    let order_nodes = topo(&b.ctx, &roots);
    for p in &case.points {
        let pm = point_map(&b.vars, p);
        let vals = eval_all(&b.ctx, &roots, &pm);
        // F5 taint: min/max with exactly one constant operand whose operand
        // values are zeros of opposite sign
        let mut taint: HashMap<Node, bool> = HashMap::new();
        let mut nan_taint: HashMap<Node, bool> = HashMap::new();
        let mut any_taint = false;
        for n in &order_nodes {
            let op = *b.ctx.get_op(*n).unwrap();
            // rand / mix hash the bit pattern of their operands; for a NaN
            // operand that is its sign and payload, which "NaN matches NaN"
            // leaves unspecified
            let mut nt = op.iter_children().any(|c| nan_taint[&c]);
            match op {
                Op::Unary(UnaryOpcode::Rand, a) if vals[&a].is_nan() => nt = true,
                Op::Binary(BinaryOpcode::Mix, l, r)
                    if vals[&l].is_nan() || vals[&r].is_nan() =>
                {
                    nt = true
                }
                _ => {}
            }
            nan_taint.insert(*n, nt);
            let mut t = op.iter_children().any(|c| taint[&c]);
            if let Op::Binary(BinaryOpcode::Min | BinaryOpcode::Max, l, r) = op {
                let lc = matches!(b.ctx.get_op(l), Some(Op::Const(..)));
                let rc = matches!(b.ctx.get_op(r), Some(Op::Const(..)));
                let (lv, rv) = (vals[&l], vals[&r]);
                if lc != rc
                    && lv == 0.0
                    && rv == 0.0
                    && lv.to_bits() != rv.to_bits()
                {
                    t = true;
                }
            }
            any_taint |= t;
            taint.insert(*n, t);
        }
        if any_taint && !cx.known("minmax-imm-zero-sign") {
            // not a listed finding (any more): compare everything strictly
            for v in taint.values_mut() {
                *v = false;
            }
        }
        expected.push(roots.iter().map(|r| vals[r]).collect());
        tainted.push(roots.iter().map(|r| taint[r]).collect());
        nan_tainted.push(roots.iter().map(|r| nan_taint[r]).collect());
        // cross-check the walker with the real Context::eval on a few roots
        for (k, r) in roots.iter().enumerate().take(4) {
            let e = b.ctx.eval(*r, &pm).unwrap();
            ensure!(
                same(e, vals[r]),
                "harness-eval-all",
                "walker {} != Context::eval {} (root {k})",
                vals[r],
                e
            );
        }
        let input: Vec<f32> = order.iter().map(|o| p[o.unwrap()].0).collect();
        let (out, _trace) = pe.eval(&tape_p, &input).map_err(|e| {
            Fail::new("point-eval-error", format!("{e:?}"))
        })?;
        ensure!(
            out.len() == roots.len(),
            "point-output-len",
            "{} outputs, expected {}",
            out.len(),
            roots.len()
        );
        let pi = expected.len() - 1;
        for (k, o) in out.iter().enumerate() {
            if tainted[pi][k] {
                cx.ev.count("comparisons_skipped_known_minmax_zero");
                continue;
            }
            if nan_tainted[pi][k] {
                cx.ev.count("comparisons_skipped_hash_of_nan_payload");
                continue;
            }
            cx.ev.count("point_comparisons");
            if !same(*o, expected[pi][k]) {
                fail!(
                    "point-mismatch",
                    "N={N} point {:?} output {k} ({:?}): tape {} graph {}",
                    p,
                    b.ctx.get_op(roots[k]).unwrap(),
                    fl_to_string(*o),
                    fl_to_string(expected[pi][k])
                );
            }
        }
    }

    // many-point evaluation: every prefix length
    let npts = case.points.len();
    for len in 0..=npts {
        if len > 2 && len < npts && len % 3 != 0 {
            continue;
        }
        let cols: Vec<Vec<f32>> = order
            .iter()
            .map(|o| case.points[..len].iter().map(|p| p[o.unwrap()].0).collect())
            .collect();
        let out = se
            .eval(&tape_s, &cols)
            .map_err(|e| Fail::new("slice-eval-error", format!("{e:?}")))?;
        ensure!(
            out.len() == roots.len(),
            "slice-output-count",
            "{} output arrays, expected {}",
            out.len(),
            roots.len()
        );
        if nin == 0 {
            // no inputs: the sample count cannot be conveyed; nothing to check
            continue;
        }
        for k in 0..roots.len() {
            ensure!(
                out[k].len() == len,
                "slice-output-len",
                "output {k} has {} samples, expected {len}",
                out[k].len()
            );
            for i in 0..len {
                if tainted[i][k] || nan_tainted[i][k] {
                    continue;
                }
                cx.ev.count("slice_comparisons");
                if !same(out[k][i], expected[i][k]) {
                    fail!(
                        "slice-mismatch",
                        "N={N} len={len} sample {i} output {k}: tape {} graph {}",
                        fl_to_string(out[k][i]),
                        fl_to_string(expected[i][k])
                    );
                }
            }
        }
    }
    Ok(())
}

pub fn dispatch(case: &Case, cx: &mut Cx) -> CheckResult {
    match BUDGETS[case.budget % BUDGETS.len()] {
        1 => run::<1>(case, cx),
        2 => run::<2>(case, cx),
        3 => run::<3>(case, cx),
        4 => run::<4>(case, cx),
        5 => run::<5>(case, cx),
        6 => run::<6>(case, cx),
        8 => run::<8>(case, cx),
        12 => run::<12>(case, cx),
        16 => run::<16>(case, cx),
        32 => run::<32>(case, cx),
        _ => run::<255>(case, cx),
    }
}

impl Prop for P {
    const ID: &'static str = "C01";
    type Case = Case;

    fn strategy(tier: Tier) -> BoxedStrategy<Case> {
        let max = tier.pick(60, 300);
        let mut p = gens::DagParams::all(max);
        p.min_vars = 0;
        // mostly ordinary programs; a few wide ones (257-320 values live at
        // once: slot indices beyond a byte at every budget) and a few with
        // 33-120 variables
        let mut pw = gens::DagParams::all(max);
        pw.consts = gens::fl_moderate();
        (
            prop_oneof![
                tier.pick(400, 100) => gens::dag(p),
                1 => gens::dag_wide(pw.clone(), 1..=6, 257..=320, false),
                1 => gens::dag_wide(pw, 1..=1, 33..=120, true),
            ],
            prop_oneof![
                2 => Just(None),
                3 => vec(any::<u16>(), 1..=8).prop_map(Some),
            ],
            gens::points(1..=tier.pick(6, 12), gens::fl_any()),
            0..BUDGETS.len(),
        )
            .prop_map(|(dag, outs, points, budget)| { let points = gens::coincide(&dag, points); Case {
                dag,
                outs,
                points,
                budget,
            }})
            .boxed()
    }

    fn check(case: &Case, cx: &mut Cx) -> CheckResult {
        if cx.tier == Tier::Thorough && !cx.ev.frozen {
            // thorough: every budget on every program
            for b in 0..BUDGETS.len() {
                let mut c = case.clone();
                c.budget = b;
                dispatch(&c, cx).map_err(|mut f| {
                    f.msg = format!("[budget index {b}] {}", f.msg);
                    f
                })?;
            }
            Ok(())
        } else {
            dispatch(case, cx)
        }
    }

    fn reduce(case: &Case) -> Vec<Case> {
        let mut out = vec![];
        let nv = case.dag.nvars as usize;
        let plen = nv + case.dag.nodes.len();
        // single points
        if case.points.len() > 1 {
            for p in &case.points {
                let mut c = case.clone();
                c.points = vec![p.clone()];
                out.push(c);
            }
        }
        // single outputs
        let roots: Vec<usize> = match &case.outs {
            None => (nv..plen).rev().take(40).collect(),
            Some(s) => s.iter().map(|s| sel_index(*s, plen)).collect(),
        };
        if roots.len() > 1 || case.outs.is_none() {
            for r in &roots {
                let mut c = case.clone();
                c.outs = Some(vec![sel_for(*r, plen)]);
                out.push(c);
            }
        }
        // drop unreachable nodes
        if let Some(s) = &case.outs {
            let roots: Vec<usize> = s.iter().map(|s| sel_index(*s, plen)).collect();
            let (dag, nr) = case.dag.prune(&roots);
            if dag.nodes.len() < case.dag.nodes.len() && !dag.nodes.is_empty() {
                let l2 = nv + dag.nodes.len();
                let mut c = case.clone();
                c.outs = Some(nr.iter().map(|r| sel_for(*r, l2)).collect());
                c.dag = dag;
                out.push(c);
            }
        }
        out
    }

    fn plan(tier: Tier) -> Plan {
        match tier {
            Tier::Quick => Plan {
                workers: 16,
                cases_per_worker: 15000,
                timeout_s: 1800,
                max_shrink_iters: 2000,
            },
            Tier::Thorough => Plan {
                workers: 16,
                cases_per_worker: 40000,
                timeout_s: 14400,
                max_shrink_iters: 2000,
            },
        }
    }

    fn rule() -> &'static str {
        "proptest-generated expression DAGs (all 30 opcodes, selector-addressed operands so sub-programs stay valid, \
         uniform / recent-biased / fan-in shapes, 0-6 variables, constants from a special-value pool) x 1-12 input \
         points from the special pool x a register budget N from {1,2,3,4,5,6,8,12,16,32,255} x outputs = all nodes \
         or 1-8 selected nodes (inputs, constants, duplicates allowed). Oracle: GenericVmFunction<N> point and \
         float-slice results bit-identical (NaN=NaN) to per-opcode graph evaluation (Context::eval semantics). \
         Non-trivial = the register tape contains at least one Load/Store spill, or has >= 2 outputs, or a node \
         with >= 2 parents; distinct = distinct case fingerprint."
    }

    fn assumptions() -> Vec<&'static str> {
        vec![
            "Context::eval / BinaryOpcode::eval / UnaryOpcode::eval is the reference meaning of a graph (tied to an independent reference in C12)",
            "budgets below 3 may refuse by panicking; a returned function must still be right",
        ]
    }
}
