//! Serialisable case descriptions shared by the property modules
use serde::{Deserialize, Deserializer, Serialize, Serializer};

/// An f32 that serialises to a human-readable, bit-exact string
#[derive(Copy, Clone, PartialEq)]
pub struct Fl(pub f32);

impl Fl {
    pub fn v(self) -> f32 {
        self.0
    }
}

impl std::fmt::Debug for Fl {
    fn fmt(&self, f: &mut std::fmt::Formatter<'_>) -> std::fmt::Result {
        write!(f, "{}", fl_to_string(self.0))
    }
}

pub fn fl_to_string(v: f32) -> String {
    if v.is_nan() {
        format!("NaN:{:08x}", v.to_bits())
    } else {
        format!("{v:?}")
    }
}

pub fn fl_from_string(s: &str) -> Option<f32> {
    if let Some(h) = s.strip_prefix("NaN:") {
        u32::from_str_radix(h, 16).ok().map(f32::from_bits)
    } else {
        s.parse::<f32>().ok()
    }
}

impl Serialize for Fl {
    fn serialize<S: Serializer>(&self, s: S) -> Result<S::Ok, S::Error> {
        s.serialize_str(&fl_to_string(self.0))
    }
}

impl<'de> Deserialize<'de> for Fl {
    fn deserialize<D: Deserializer<'de>>(d: D) -> Result<Self, D::Error> {
        let s = String::deserialize(d)?;
        fl_from_string(&s)
            .map(Fl)
            .ok_or_else(|| serde::de::Error::custom(format!("bad float {s}")))
    }
}

impl From<f32> for Fl {
    fn from(v: f32) -> Self {
        Fl(v)
    }
}

#[derive(Copy, Clone, Debug, PartialEq, Eq, Hash, Serialize, Deserialize, PartialOrd, Ord)]
pub enum UnOp {
    Neg,
    Abs,
    Recip,
    Sqrt,
    Square,
    Floor,
    Ceil,
    Round,
    Sin,
    Cos,
    Tan,
    Asin,
    Acos,
    Atan,
    Exp,
    Ln,
    Not,
    Rand,
}

pub const ALL_UN: [UnOp; 18] = [
    UnOp::Neg,
    UnOp::Abs,
    UnOp::Recip,
    UnOp::Sqrt,
    UnOp::Square,
    UnOp::Floor,
    UnOp::Ceil,
    UnOp::Round,
    UnOp::Sin,
    UnOp::Cos,
    UnOp::Tan,
    UnOp::Asin,
    UnOp::Acos,
    UnOp::Atan,
    UnOp::Exp,
    UnOp::Ln,
    UnOp::Not,
    UnOp::Rand,
];

#[derive(Copy, Clone, Debug, PartialEq, Eq, Hash, Serialize, Deserialize, PartialOrd, Ord)]
pub enum BinOp {
    Add,
    Sub,
    Mul,
    Div,
    Atan2,
    Min,
    Max,
    Compare,
    Mod,
    And,
    Or,
    Mix,
}

pub const ALL_BIN: [BinOp; 12] = [
    BinOp::Add,
    BinOp::Sub,
    BinOp::Mul,
    BinOp::Div,
    BinOp::Atan2,
    BinOp::Min,
    BinOp::Max,
    BinOp::Compare,
    BinOp::Mod,
    BinOp::And,
    BinOp::Or,
    BinOp::Mix,
];

impl BinOp {
    pub fn is_choice(self) -> bool {
        matches!(self, BinOp::Min | BinOp::Max | BinOp::And | BinOp::Or)
    }
}

/// One node of a generated DAG.  Operands are 16-bit selectors mapped
/// monotonically onto the pool "variables ++ earlier nodes", so any sub-vector
/// of nodes is still a valid program (shrinking works on the whole program).
#[derive(Copy, Clone, Debug, PartialEq, Serialize, Deserialize)]
pub enum NodeSpec {
    C(Fl),
    U(UnOp, u16),
    B(BinOp, u16, u16),
}

#[derive(Clone, Debug, PartialEq, Serialize, Deserialize)]
pub struct DagSpec {
    /// Number of input variables: 0 => X, 1 => Y, 2 => Z, 3.. => free variables
    pub nvars: u8,
    pub nodes: Vec<NodeSpec>,
}

/// Maps a selector onto an index in a pool of `len` entries (monotone)
pub fn sel_index(sel: u16, len: usize) -> usize {
    debug_assert!(len > 0);
    ((sel as usize) * len) >> 16
}

/// The selector that picks exactly entry `t` of a pool of `len` entries
pub fn sel_for(t: usize, len: usize) -> u16 {
    assert!(t < len && len < 65536);
    let s = ((t << 16) + len - 1) / len;
    debug_assert_eq!(sel_index(s as u16, len), t);
    s as u16
}

/// A point: one value per variable
pub type PointSpec = Vec<Fl>;

impl DagSpec {
    /// Pool index (variables ++ nodes) each operand of node `i` refers to
    pub fn operands(&self, i: usize) -> Vec<usize> {
        let len = self.nvars as usize + i;
        if len == 0 {
            return vec![];
        }
        match self.nodes[i] {
            NodeSpec::C(_) => vec![],
            NodeSpec::U(_, a) => vec![sel_index(a, len)],
            NodeSpec::B(_, a, b) => vec![sel_index(a, len), sel_index(b, len)],
        }
    }

    /// Removes every node that is not reachable from the given pool indices,
    /// re-targeting selectors exactly.  Returns the new spec and the new pool
    /// index of each kept root.
    pub fn prune(&self, roots: &[usize]) -> (DagSpec, Vec<usize>) {
        let nv = self.nvars as usize;
        let mut keep = vec![false; self.nodes.len()];
        let mut stack: Vec<usize> = roots.to_vec();
        while let Some(p) = stack.pop() {
            if p < nv {
                continue;
            }
            let i = p - nv;
            if keep[i] {
                continue;
            }
            keep[i] = true;
            stack.extend(self.operands(i));
        }
        let mut newpos = vec![usize::MAX; self.nodes.len()];
        let mut nodes = vec![];
        for i in 0..self.nodes.len() {
            if !keep[i] {
                continue;
            }
            let len = nv + nodes.len();
            let map = |p: usize| -> u16 {
                let q = if p < nv { p } else { nv + newpos[p - nv] };
                sel_for(q, len)
            };
            let ops = self.operands(i);
            let n = match self.nodes[i] {
                NodeSpec::C(c) => NodeSpec::C(c),
                _ if ops.is_empty() => NodeSpec::C(Fl(0.5)),
                NodeSpec::U(o, _) => NodeSpec::U(o, map(ops[0])),
                NodeSpec::B(o, _, _) => NodeSpec::B(o, map(ops[0]), map(ops[1])),
            };
            newpos[i] = nodes.len();
            nodes.push(n);
        }
        let new_roots = roots
            .iter()
            .map(|p| if *p < nv { *p } else { nv + newpos[*p - nv] })
            .collect();
        (
            DagSpec {
                nvars: self.nvars,
                nodes,
            },
            new_roots,
        )
    }
}
