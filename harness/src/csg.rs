//! CSG shape specs shared by the rendering / meshing properties
use crate::spec::Fl;
use fidget_core::context::{Context, Node};
use proptest::prelude::*;
use serde::{Deserialize, Serialize};

#[derive(Clone, Debug, Serialize, Deserialize)]
pub enum Csg {
    /// sqrt(|p - c|^2) - r
    Sphere { c: [Fl; 3], r: Fl },
    /// max over axes of max(c - h - p, p - (c + h))
    Cuboid { c: [Fl; 3], h: [Fl; 3] },
    /// infinite cylinder along z: sqrt((x-cx)^2 + (y-cy)^2) - r, capped to |z - cz| <= hz
    Cylinder { c: [Fl; 3], r: Fl, hz: Fl },
    /// n . p - d (n need not be normalised)
    Half { n: [Fl; 3], d: Fl },
    /// solid cone with its apex at `apex`, opening downwards (-z) with slope
    /// `k` (radius = k * depth below the apex), cut off `h` below the apex:
    /// max((sqrt(dx^2 + dy^2) - k (az - z)) / sqrt(1 + k^2), (az - h) - z).
    /// The surface meets the axis at the apex, where the gradient is 0/0.
    Cone { apex: [Fl; 3], k: Fl, h: Fl },
    /// skew ellipsoid: (sqrt(dx^2 + k dx dy + dy^2 + dz^2) - r) / sqrt(1 + |k| / 2),
    /// |k| < 2.  Finite everywhere, but the naive interval of the quadratic form
    /// goes negative on large boxes around the centre (dx dy is not recognised as
    /// bounded by the squares), so sqrt yields the NaN interval on coarse cells.
    Skew { c: [Fl; 3], k: Fl, r: Fl },
    /// exact signed distance to a box, q = |p - c| - h:
    /// sqrt(max(qx,0)^2 + max(qy,0)^2 + max(qz,0)^2) + min(max(qx, qy, qz), 0).
    /// 1-Lipschitz; the square root is taken of exactly 0 everywhere inside and
    /// on the faces, so the gradient evaluators return NaN (0/0) there
    SdfBox { c: [Fl; 3], h: [Fl; 3] },
    Union(Box<Csg>, Box<Csg>),
    Inter(Box<Csg>, Box<Csg>),
    Diff(Box<Csg>, Box<Csg>),
}

impl Csg {
    pub fn build(&self, ctx: &mut Context) -> Node {
        let [x, y, z] = ctx.axes();
        match self {
            Csg::Sphere { c, r } => {
                let dx = ctx.sub(x, c[0].0).unwrap();
                let dy = ctx.sub(y, c[1].0).unwrap();
                let dz = ctx.sub(z, c[2].0).unwrap();
                let dx2 = ctx.square(dx).unwrap();
                let dy2 = ctx.square(dy).unwrap();
                let dz2 = ctx.square(dz).unwrap();
                let s = ctx.add(dx2, dy2).unwrap();
                let s = ctx.add(s, dz2).unwrap();
                let s = ctx.sqrt(s).unwrap();
                ctx.sub(s, r.0).unwrap()
            }
            Csg::Cuboid { c, h } => {
                let mut out: Option<Node> = None;
                for (i, a) in [x, y, z].into_iter().enumerate() {
                    let lo = ctx.sub(c[i].0 - h[i].0, a).unwrap();
                    let hi = ctx.sub(a, c[i].0 + h[i].0).unwrap();
                    let m = ctx.max(lo, hi).unwrap();
                    out = Some(match out {
                        None => m,
                        Some(o) => ctx.max(o, m).unwrap(),
                    });
                }
                out.unwrap()
            }
            Csg::SdfBox { c, h } => {
                let mut q = vec![];
                for (i, a) in [x, y, z].into_iter().enumerate() {
                    let d = ctx.sub(a, c[i].0).unwrap();
                    let d = ctx.abs(d).unwrap();
                    q.push(ctx.sub(d, h[i].0).unwrap());
                }
                let mut s: Option<Node> = None;
                for qi in &q {
                    let m = ctx.max(*qi, 0.0).unwrap();
                    let m2 = ctx.square(m).unwrap();
                    s = Some(match s {
                        None => m2,
                        Some(o) => ctx.add(o, m2).unwrap(),
                    });
                }
                let outside = ctx.sqrt(s.unwrap()).unwrap();
                let m = ctx.max(q[1], q[2]).unwrap();
                let m = ctx.max(q[0], m).unwrap();
                let inside = ctx.min(m, 0.0).unwrap();
                ctx.add(outside, inside).unwrap()
            }
            Csg::Cylinder { c, r, hz } => {
                let dx = ctx.sub(x, c[0].0).unwrap();
                let dy = ctx.sub(y, c[1].0).unwrap();
                let dx2 = ctx.square(dx).unwrap();
                let dy2 = ctx.square(dy).unwrap();
                let s = ctx.add(dx2, dy2).unwrap();
                let s = ctx.sqrt(s).unwrap();
                let side = ctx.sub(s, r.0).unwrap();
                let dz = ctx.sub(z, c[2].0).unwrap();
                let az = ctx.abs(dz).unwrap();
                let cap = ctx.sub(az, hz.0).unwrap();
                ctx.max(side, cap).unwrap()
            }
            Csg::Cone { apex, k, h } => {
                let dx = ctx.sub(x, apex[0].0).unwrap();
                let dy = ctx.sub(y, apex[1].0).unwrap();
                let dx2 = ctx.square(dx).unwrap();
                let dy2 = ctx.square(dy).unwrap();
                let s = ctx.add(dx2, dy2).unwrap();
                let r = ctx.sqrt(s).unwrap();
                let below = ctx.sub(apex[2].0, z).unwrap();
                let kr = ctx.mul(below, k.0).unwrap();
                let side = ctx.sub(r, kr).unwrap();
                let side = ctx.div(side, (1.0 + k.0 * k.0).sqrt()).unwrap();
                let base = ctx.sub(apex[2].0 - h.0, z).unwrap();
                ctx.max(side, base).unwrap()
            }
            Csg::Skew { c, k, r } => {
                let dx = ctx.sub(x, c[0].0).unwrap();
                let dy = ctx.sub(y, c[1].0).unwrap();
                let dz = ctx.sub(z, c[2].0).unwrap();
                let dx2 = ctx.square(dx).unwrap();
                let dy2 = ctx.square(dy).unwrap();
                let dz2 = ctx.square(dz).unwrap();
                let xy = ctx.mul(dx, dy).unwrap();
                let kxy = ctx.mul(xy, k.0).unwrap();
                let s = ctx.add(dx2, kxy).unwrap();
                let s = ctx.add(s, dy2).unwrap();
                let s = ctx.add(s, dz2).unwrap();
                let s = ctx.sqrt(s).unwrap();
                let d = ctx.sub(s, r.0).unwrap();
                ctx.div(d, (1.0 + k.0.abs() / 2.0).sqrt()).unwrap()
            }
            Csg::Half { n, d } => {
                let a = ctx.mul(x, n[0].0).unwrap();
                let b = ctx.mul(y, n[1].0).unwrap();
                let c = ctx.mul(z, n[2].0).unwrap();
                let s = ctx.add(a, b).unwrap();
                let s = ctx.add(s, c).unwrap();
                ctx.sub(s, d.0).unwrap()
            }
            Csg::Union(a, b) => {
                let a = a.build(ctx);
                let b = b.build(ctx);
                ctx.min(a, b).unwrap()
            }
            Csg::Inter(a, b) => {
                let a = a.build(ctx);
                let b = b.build(ctx);
                ctx.max(a, b).unwrap()
            }
            Csg::Diff(a, b) => {
                let a = a.build(ctx);
                let b = b.build(ctx);
                let nb = ctx.neg(b).unwrap();
                ctx.max(a, nb).unwrap()
            }
        }
    }

    pub fn primitives(&self) -> usize {
        match self {
            Csg::Union(a, b) | Csg::Inter(a, b) | Csg::Diff(a, b) => {
                a.primitives() + b.primitives()
            }
            _ => 1,
        }
    }
}

fn coord(range: f32) -> BoxedStrategy<Fl> {
    (-1000i32..=1000)
        .prop_map(move |i| Fl(i as f32 / 1000.0 * range))
        .boxed()
}

fn pos(lo: f32, hi: f32) -> BoxedStrategy<Fl> {
    (0i32..=1000)
        .prop_map(move |i| Fl(lo + (hi - lo) * i as f32 / 1000.0))
        .boxed()
}

/// Primitives with centres in [-range, range]^3 and sizes in [smin, smax]
pub fn primitive(range: f32, smin: f32, smax: f32, halfspaces: bool) -> BoxedStrategy<Csg> {
    let c3 = || [coord(range), coord(range), coord(range)];
    let mut alts: Vec<(u32, BoxedStrategy<Csg>)> = vec![
        (
            4,
            (c3(), pos(smin, smax))
                .prop_map(|(c, r)| Csg::Sphere { c, r })
                .boxed(),
        ),
        (
            3,
            (c3(), [pos(smin, smax), pos(smin, smax), pos(smin, smax)])
                .prop_map(|(c, h)| Csg::Cuboid { c, h })
                .boxed(),
        ),
        (
            2,
            (c3(), pos(smin, smax), pos(smin, smax))
                .prop_map(|(c, r, hz)| Csg::Cylinder { c, r, hz })
                .boxed(),
        ),
    ];
    // cones: apex coordinates on a dyadic lattice half of the time, so that the
    // apex (singular gradient) falls on octree / pixel grid lines
    let lattice = move || {
        prop_oneof![
            1 => (-4i32..=4).prop_map(move |i| Fl((i as f32 * 0.125).clamp(-range, range))),
            1 => coord(range),
        ]
        .boxed()
    };
    alts.push((
        1,
        // base radius and height both in [smin, smax], like the other
        // primitives' sizes, so the solid stays within range + smax of the
        // origin (C08 needs the surface strictly inside the region)
        ([lattice(), lattice(), lattice()], pos(smin, smax), pos(smin, smax))
            .prop_map(|(apex, r, h)| Csg::Cone { apex, k: Fl(r.0 / h.0), h })
            .boxed(),
    ));
    // exact-distance boxes (NaN gradient on and inside every face)
    alts.push((
        1,
        (c3(), [pos(smin, smax), pos(smin, smax), pos(smin, smax)])
            .prop_map(|(c, h)| Csg::SdfBox { c, h })
            .boxed(),
    ));
    // skew ellipsoids whose longest half-axis is in [smin, smax]
    alts.push((
        1,
        (c3(), (-12i32..=12), pos(smin, smax))
            .prop_map(|(c, k, ext)| {
                let k = k as f32 / 10.0;
                Csg::Skew { c, k: Fl(k), r: Fl(ext.0 * (1.0 - k.abs() / 2.0).sqrt()) }
            })
            .boxed(),
    ));
    if halfspaces {
        alts.push((
            1,
            ([coord(1.0), coord(1.0), coord(1.0)], coord(range))
                .prop_map(|(n, d)| Csg::Half { n, d })
                .boxed(),
        ));
    }
    proptest::strategy::Union::new_weighted(alts).boxed()
}

pub fn csg(depth: u32, range: f32, smin: f32, smax: f32, halfspaces: bool) -> BoxedStrategy<Csg> {
    primitive(range, smin, smax, halfspaces)
        .prop_recursive(depth, 16, 2, |inner| {
            prop_oneof![
                3 => (inner.clone(), inner.clone())
                    .prop_map(|(a, b)| Csg::Union(Box::new(a), Box::new(b))),
                2 => (inner.clone(), inner.clone())
                    .prop_map(|(a, b)| Csg::Inter(Box::new(a), Box::new(b))),
                2 => (inner.clone(), inner)
                    .prop_map(|(a, b)| Csg::Diff(Box::new(a), Box::new(b))),
            ]
        })
        .boxed()
}
