//! C05 — gradient evaluation returns the partial derivatives of the expression
use crate::build::*;
use crate::engine::*;
use crate::gens;
use crate::p02::ref_taint_ext;
use crate::refsem::{self, same, same_tol};
use crate::spec::*;
use crate::{ensure, fail};
use fidget_core::context::{Node, Op};
use fidget_core::eval::{BulkEvaluator, Function, MathFunction, TracingEvaluator};
use fidget_core::shape::Transformable;
use fidget_core::types::Grad;
use fidget_core::var::Var;
use fidget_core::vm::VmFunction;
use fidget_jit::JitFunction;
use nalgebra::Matrix4;
use proptest::collection::vec;
use proptest::prelude::*;
use serde::{Deserialize, Serialize};
use std::collections::HashMap;

#[derive(Clone, Debug, Serialize, Deserialize)]
pub enum Case {
    Local {
        dag: DagSpec,
        /// per sample, per variable: (value, dx, dy, dz)
        points: Vec<Vec<(Fl, Fl, Fl, Fl)>>,
    },
    Symbolic {
        dag: DagSpec,
        points: Vec<Vec<Fl>>,
        out: u16,
    },
    Transform {
        mat: Vec<Fl>,
        point: Vec<(Fl, Fl, Fl, Fl)>,
    },
}

pub struct P;

////////////////////////////////////////////////////////////////////////////////
// f64 reference: derivative coefficients per opcode, and "near a locus" tests

const REL: f64 = 1e-3;

fn near(a: f64, b: f64) -> bool {
    (a - b).abs() <= REL * a.abs().max(b.abs()).max(1e-30)
}
fn near_zero(a: f64, scale: f64) -> bool {
    a.abs() <= REL * scale.max(1e-30)
}

/// (value, k) with d(out) = k * d(arg); None = skip (near a non-differentiable
/// locus, or outside the domain)
fn un_rule(op: UnOp, x: f64) -> Option<(f64, f64)> {
    Some(match op {
        UnOp::Neg => (-x, -1.0),
        UnOp::Abs => {
            if near_zero(x, 1.0) {
                return None;
            }
            (x.abs(), x.signum())
        }
        UnOp::Recip => {
            if near_zero(x, 1.0) {
                return None;
            }
            (1.0 / x, -1.0 / (x * x))
        }
        UnOp::Sqrt => {
            if x <= 1e-6 {
                return None;
            }
            (x.sqrt(), 0.5 / x.sqrt())
        }
        UnOp::Square => (x * x, 2.0 * x),
        UnOp::Floor | UnOp::Ceil | UnOp::Round => {
            // integer (and half-integer for round) points are excluded
            let f = (x * 2.0).round() / 2.0;
            if near(x, f) {
                return None;
            }
            (
                match op {
                    UnOp::Floor => x.floor(),
                    UnOp::Ceil => x.ceil(),
                    _ => x.round(),
                },
                0.0,
            )
        }
        UnOp::Sin => (x.sin(), x.cos()),
        UnOp::Cos => (x.cos(), -x.sin()),
        UnOp::Tan => {
            if x.abs() > 1e4 || x.cos().abs() < 1e-2 {
                return None;
            }
            (x.tan(), 1.0 / (x.cos() * x.cos()))
        }
        UnOp::Asin => {
            if x.abs() >= 1.0 - 1e-3 {
                return None;
            }
            (x.asin(), 1.0 / (1.0 - x * x).sqrt())
        }
        UnOp::Acos => {
            if x.abs() >= 1.0 - 1e-3 {
                return None;
            }
            (x.acos(), -1.0 / (1.0 - x * x).sqrt())
        }
        UnOp::Atan => (x.atan(), 1.0 / (1.0 + x * x)),
        UnOp::Exp => {
            if x > 80.0 {
                return None;
            }
            (x.exp(), x.exp())
        }
        UnOp::Ln => {
            if x <= 1e-6 {
                return None;
            }
            (x.ln(), 1.0 / x)
        }
        UnOp::Not => {
            if near_zero(x, 1.0) {
                return None;
            }
            (0.0, 0.0)
        }
        UnOp::Rand => (f64::NAN, 0.0),
    })
}

/// (value, ka, kb); value NaN means "take the value from the f32 reference"
fn bin_rule(op: BinOp, x: f64, y: f64) -> Option<(f64, f64, f64)> {
    Some(match op {
        BinOp::Add => (x + y, 1.0, 1.0),
        BinOp::Sub => (x - y, 1.0, -1.0),
        BinOp::Mul => (x * y, y, x),
        BinOp::Div => {
            if near_zero(y, 1.0) {
                return None;
            }
            (x / y, 1.0 / y, -x / (y * y))
        }
        BinOp::Atan2 => {
            let r2 = x * x + y * y;
            if r2 < 1e-6 {
                return None;
            }
            // branch cut: y (first argument, here x) == 0 with negative second
            if near_zero(x, y.abs()) && y < 0.0 {
                return None;
            }
            (x.atan2(y), y / r2, -x / r2)
        }
        BinOp::Min | BinOp::Max => {
            if near(x, y) {
                return None;
            }
            let left = if op == BinOp::Min { x < y } else { x > y };
            if left { (x, 1.0, 0.0) } else { (y, 0.0, 1.0) }
        }
        BinOp::Compare => {
            if near(x, y) {
                return None;
            }
            (if x < y { -1.0 } else { 1.0 }, 0.0, 0.0)
        }
        BinOp::Mod => {
            if near_zero(y, 1.0) {
                return None;
            }
            let q = x / y;
            if near(q, q.round()) || q.abs() > 1e6 {
                return None;
            }
            (x.rem_euclid(y), 1.0, -x.div_euclid(y))
        }
        BinOp::And => {
            if x != 0.0 && near_zero(x, 1.0) {
                return None;
            }
            if x == 0.0 { (x, 1.0, 0.0) } else { (y, 0.0, 1.0) }
        }
        BinOp::Or => {
            if x != 0.0 && near_zero(x, 1.0) {
                return None;
            }
            if x != 0.0 { (x, 1.0, 0.0) } else { (y, 0.0, 1.0) }
        }
        BinOp::Mix => (f64::NAN, 0.0, 0.0),
    })
}

fn in_range(v: f64) -> bool {
    v == 0.0 || (v.abs() < 1e15 && v.abs() > 1e-15)
}

fn grad_ok(g: &Grad) -> bool {
    [g.v, g.dx, g.dy, g.dz]
        .iter()
        .all(|v| v.is_finite() && in_range(*v as f64))
}

/// Local obligations for one evaluator's outputs at one sample
fn local(
    what: &str,
    b: &Built,
    roots: &[Node],
    root_index: &HashMap<Node, usize>,
    inputs: &HashMap<Var, Grad>,
    out: &dyn Fn(usize) -> Grad,
    cx: &mut Cx,
    nontrivial: &mut bool,
) -> CheckResult {
    let operand = |n: Node| -> Grad {
        match b.ctx.get_op(n).unwrap() {
            Op::Input(v) => inputs[v],
            Op::Const(c) => Grad::from(c.0),
            _ => out(root_index[&n]),
        }
    };
    for (k, r) in roots.iter().enumerate() {
        let got = out(k);
        let op = *b.ctx.get_op(*r).unwrap();
        // ---- value component: the reference meaning on the operands' values
        let (a, bb, rule, bop): (Grad, Grad, Option<(f64, f64, f64)>, Option<BinOp>) =
            match op {
                Op::Input(..) | Op::Const(..) => {
                    let e = operand(*r);
                    ensure!(
                        same(got.v, e.v)
                            && same(got.dx, e.dx)
                            && same(got.dy, e.dy)
                            && same(got.dz, e.dz),
                        format!("grad-copy-{what}"),
                        "{what}: output of {:?} is {:?}, expected {:?}",
                        op,
                        got,
                        e
                    );
                    continue;
                }
                Op::Unary(o, a) => {
                    let a = operand(a);
                    let o = un_of(o);
                    let exp_v = refsem::un(o, a.v);
                    if !same(got.v, exp_v) {
                        let f12 = o == UnOp::Abs
                            && a.v.to_bits() == (-0.0f32).to_bits()
                            && got.v.to_bits() == (-0.0f32).to_bits();
                        if f12 {
                            if !cx.known("F12-grad-abs-negative-zero") {
                                fail!(
                                    "F12-grad-abs-negative-zero",
                                    "{what}: abs(-0.0) has value -0.0 in the gradient evaluator (point evaluators: +0.0)"
                                );
                            }
                        } else {
                            fail!(
                                format!("grad-value-{what}"),
                                "{what}: {:?}({}) has value {} but the point meaning is {}",
                                o,
                                fl_to_string(a.v),
                                fl_to_string(got.v),
                                fl_to_string(exp_v)
                            );
                        }
                    }
                    let rule = un_rule(o, a.v as f64).map(|(v, k)| (v, k, 0.0));
                    (a, Grad::from(0.0), rule, None)
                }
                Op::Binary(o, l, rr) => {
                    let (l, rr) = (operand(l), operand(rr));
                    let o = bin_of(o);
                    let exp_v = refsem::bin(o, l.v, rr.v);
                    if !same_tol(Some(o), got.v, exp_v, l.v, rr.v) {
                        fail!(
                            format!("grad-value-{what}"),
                            "{what}: {:?}({}, {}) has value {} but the point meaning is {}",
                            o,
                            fl_to_string(l.v),
                            fl_to_string(rr.v),
                            fl_to_string(got.v),
                            fl_to_string(exp_v)
                        );
                    }
                    (l, rr, bin_rule(o, l.v as f64, rr.v as f64), Some(o))
                }
            };
        cx.ev.count("value_obligations");
        // ---- derivative components
        if !grad_ok(&a) || !grad_ok(&bb) {
            cx.ev.count("deriv_skipped_operand_out_of_range");
            continue;
        }
        let Some((_v, ka, kb)) = rule else {
            cx.ev.count("deriv_skipped_near_nondifferentiable_locus");
            continue;
        };
        let _ = bop;
        let da = [a.dx as f64, a.dy as f64, a.dz as f64];
        let db = [bb.dx as f64, bb.dy as f64, bb.dz as f64];
        let gd = [got.dx as f64, got.dy as f64, got.dz as f64];
        let mut skip = false;
        let mut exp = [0.0; 3];
        let mut scale = [0.0; 3];
        for i in 0..3 {
            let (ta, tb) = (ka * da[i], kb * db[i]);
            exp[i] = ta + tb;
            scale[i] = ta.abs() + tb.abs();
            if !(in_range(ta) && in_range(tb) && in_range(exp[i])) || !in_range(ka) || !in_range(kb) {
                skip = true;
            }
        }
        if skip {
            cx.ev.count("deriv_skipped_reference_out_of_f32_range");
            continue;
        }
        cx.ev.count("deriv_obligations");
        for i in 0..3 {
            let tol = 1e-4 * scale[i] + 1e-30;
            if !((gd[i] - exp[i]).abs() <= tol) {
                fail!(
                    format!("grad-deriv-{what}"),
                    "{what}: {:?} with operands {:?} , {:?}: partial {i} is {} but the derivative rule gives {} (tol {tol:e})",
                    op,
                    a,
                    bb,
                    gd[i],
                    exp[i]
                );
            }
        }
        if exp.iter().any(|e| *e != 0.0)
            && op.iter_children().any(|c| {
                !matches!(b.ctx.get_op(c).unwrap(), Op::Input(..) | Op::Const(..))
            })
        {
            *nontrivial = true;
        }
    }
    Ok(())
}

////////////////////////////////////////////////////////////////////////////////
// f64 evaluation of a context graph (value only) and forward-mode reference

fn un64(op: UnOp, x: f64) -> f64 {
    match op {
        UnOp::Neg => -x,
        UnOp::Abs => x.abs(),
        UnOp::Recip => 1.0 / x,
        UnOp::Sqrt => x.sqrt(),
        UnOp::Square => x * x,
        UnOp::Floor => x.floor(),
        UnOp::Ceil => x.ceil(),
        UnOp::Round => x.round(),
        UnOp::Sin => x.sin(),
        UnOp::Cos => x.cos(),
        UnOp::Tan => x.tan(),
        UnOp::Asin => x.asin(),
        UnOp::Acos => x.acos(),
        UnOp::Atan => x.atan(),
        UnOp::Exp => x.exp(),
        UnOp::Ln => x.ln(),
        UnOp::Not => (x == 0.0) as u8 as f64,
        UnOp::Rand => f64::NAN,
    }
}
fn bin64(op: BinOp, x: f64, y: f64) -> f64 {
    match op {
        BinOp::Add => x + y,
        BinOp::Sub => x - y,
        BinOp::Mul => x * y,
        BinOp::Div => x / y,
        BinOp::Atan2 => x.atan2(y),
        BinOp::Min => {
            if x.is_nan() || y.is_nan() { f64::NAN } else { x.min(y) }
        }
        BinOp::Max => {
            if x.is_nan() || y.is_nan() { f64::NAN } else { x.max(y) }
        }
        BinOp::Compare => {
            if x < y {
                -1.0
            } else if x > y {
                1.0
            } else if x == y {
                0.0
            } else {
                f64::NAN
            }
        }
        BinOp::Mod => x.rem_euclid(y),
        BinOp::And => {
            if x == 0.0 { x } else { y }
        }
        BinOp::Or => {
            if x != 0.0 { x } else { y }
        }
        BinOp::Mix => f64::NAN,
    }
}

pub fn eval64(
    ctx: &fidget_core::Context,
    root: Node,
    vars: &HashMap<Var, f64>,
) -> f64 {
    let mut memo: HashMap<Node, f64> = HashMap::new();
    for n in topo(ctx, &[root]) {
        let v = match *ctx.get_op(n).unwrap() {
            Op::Input(v) => vars[&v],
            Op::Const(c) => c.0 as f64,
            Op::Unary(o, a) => un64(un_of(o), memo[&a]),
            Op::Binary(o, a, b) => bin64(bin_of(o), memo[&a], memo[&b]),
        };
        memo.insert(n, v);
    }
    memo[&root]
}

/// Forward-mode derivative of `root` w.r.t. `wrt` in f64; None if some node
/// is near a non-differentiable locus or leaves a comfortable range.  Returns
/// (value, derivative, magnitude bound of the derivative ignoring cancellation)
fn forward64(
    ctx: &fidget_core::Context,
    root: Node,
    vars: &HashMap<Var, f64>,
    wrt: Var,
) -> Option<(f64, f64, f64)> {
    let mut memo: HashMap<Node, (f64, f64, f64)> = HashMap::new();
    for n in topo(ctx, &[root]) {
        let v = match *ctx.get_op(n).unwrap() {
            Op::Input(v) => {
                let d = if v == wrt { 1.0 } else { 0.0 };
                (vars[&v], d, d)
            }
            Op::Const(c) => (c.0 as f64, 0.0, 0.0),
            Op::Unary(o, a) => {
                let (x, dx, ax) = memo[&a];
                let (v, k) = un_rule(un_of(o), x)?;
                (v, k * dx, k.abs() * ax)
            }
            Op::Binary(o, a, b) => {
                let (x, dx, ax) = memo[&a];
                let (y, dy, ay) = memo[&b];
                let (v, ka, kb) = bin_rule(bin_of(o), x, y)?;
                (v, ka * dx + kb * dy, ka.abs() * ax + kb.abs() * ay)
            }
        };
        if !(v.0.is_finite() && v.1.is_finite() && v.0.abs() < 1e12 && v.2.abs() < 1e12) {
            return None;
        }
        memo.insert(n, v);
    }
    Some(memo[&root])
}

////////////////////////////////////////////////////////////////////////////////

fn seed() -> BoxedStrategy<Fl> {
    prop_oneof![
        3 => gens::fl_uniform(-2.0, 2.0),
        1 => Just(Fl(0.0)),
        1 => Just(Fl(1.0)),
        1 => gens::fl_uniform(-100.0, 100.0),
    ]
    .boxed()
}

fn gpoint() -> BoxedStrategy<(Fl, Fl, Fl, Fl)> {
    (
        prop_oneof![
            6 => gens::fl_uniform(-3.0, 3.0),
            2 => gens::fl_grid(),
            1 => gens::fl_uniform(-50.0, 50.0),
            1 => gens::fl_any(),
        ],
        seed(),
        seed(),
        seed(),
    )
        .boxed()
}

impl Prop for P {
    const ID: &'static str = "C05";
    type Case = Case;

    fn strategy(tier: Tier) -> BoxedStrategy<Case> {
        let max = tier.pick(40, 120);
        let mut p = gens::DagParams::all(max);
        p.max_vars = 5;
        p.consts = prop_oneof![
            5 => gens::fl_uniform(-3.0, 3.0),
            2 => gens::fl_grid(),
            1 => gens::fl_special(),
        ]
        .boxed();
        let local = (gens::dag(p.clone()), vec(vec(gpoint(), 8..=8), 1..=9))
            .prop_map(|(dag, points)| Case::Local { dag, points });
        let mut ps = p.clone().without(&[UnOp::Rand], &[BinOp::Mix]);
        ps.max_nodes = tier.pick(25, 60);
        ps.consts = prop_oneof![
            5 => gens::fl_uniform(-3.0, 3.0),
            2 => gens::fl_grid(),
        ]
        .boxed();
        let symbolic = (
            gens::dag(ps),
            vec(vec(gens::fl_uniform(-3.0, 3.0), 8..=8), 1..=4),
            any::<u16>(),
        )
            .prop_map(|(dag, points, out)| Case::Symbolic { dag, points, out });
        let entry = prop_oneof![
            3 => gens::fl_uniform(-2.0, 2.0),
            2 => Just(Fl(0.0)),
            1 => Just(Fl(1.0)),
        ];
        let transform = (vec(entry, 16..=16), any::<bool>(), vec(gpoint(), 3..=3)).prop_map(
            |(mut mat, affine, point)| {
                if affine {
                    mat[12] = Fl(0.0);
                    mat[13] = Fl(0.0);
                    mat[14] = Fl(0.0);
                    mat[15] = Fl(1.0);
                }
                Case::Transform { mat, point }
            },
        );
        prop_oneof![6 => local, 3 => symbolic, 1 => transform].boxed()
    }

    fn check(case: &Case, cx: &mut Cx) -> CheckResult {
        match case {
            Case::Local { dag, points } => {
                let b = build_dag(dag);
                let roots = crate::p01::roots_of(&b, &None);
                let root_index: HashMap<Node, usize> =
                    roots.iter().enumerate().map(|(i, n)| (*n, i)).collect();
                let order = topo(&b.ctx, &roots);
                let mut nontrivial = false;
                let n = points.len();
                cx.ev.count(&format!("slice_len_{n}"));

                macro_rules! backend {
                    ($F:ty, $what:expr) => {{
                        let f = <$F>::new(&b.ctx, &roots).unwrap();
                        let vm = f.vars();
                        let mut cols: Vec<Vec<Grad>> = vec![vec![]; vm.len()];
                        let mut pcols: Vec<Vec<f32>> = vec![vec![]; vm.len()];
                        for (i, v) in b.vars.iter().enumerate() {
                            if let Some(s) = vm.get(v) {
                                cols[s] = points
                                    .iter()
                                    .map(|p| Grad::new(p[i].0.0, p[i].1.0, p[i].2.0, p[i].3.0))
                                    .collect();
                                pcols[s] = points.iter().map(|p| p[i].0.0).collect();
                            }
                        }
                        let tape = f.grad_slice_tape(Default::default());
                        let mut ev = <$F>::new_grad_slice_eval();
                        let out = ev
                            .eval(&tape, &cols)
                            .map_err(|e| Fail::new("eval-error", format!("{e:?}")))?;
                        ensure!(out.len() == roots.len(), "output-count", "{}", out.len());
                        if !cols.is_empty() {
                            let outv: Vec<Vec<Grad>> =
                                (0..roots.len()).map(|k| out[k].to_vec()).collect();
                            // point evaluator values for the same nodes
                            let ptape = f.point_tape(Default::default());
                            let mut pev = <$F>::new_point_eval();
                            for i in 0..n {
                                ensure!(outv[0].len() == n, "output-len", "{}", outv[0].len());
                                let inputs: HashMap<Var, Grad> = b
                                    .vars
                                    .iter()
                                    .enumerate()
                                    .map(|(vi, v)| {
                                        let p = &points[i][vi];
                                        (*v, Grad::new(p.0.0, p.1.0, p.2.0, p.3.0))
                                    })
                                    .collect();
                                local(
                                    $what,
                                    &b,
                                    &roots,
                                    &root_index,
                                    &inputs,
                                    &|k| outv[k][i],
                                    cx,
                                    &mut nontrivial,
                                )?;
                                // global: .v equals the point evaluator
                                let pin: Vec<f32> = pcols.iter().map(|c| c[i]).collect();
                                let (pout, _) = pev.eval(&ptape, &pin).unwrap();
                                let spec_p: Vec<Fl> =
                                    points[i].iter().map(|p| p.0).collect();
                                let pm = point_map(&b.vars, &spec_p);
                                let vals = eval_all(&b.ctx, &roots, &pm);
                                let taint =
                                    ref_taint_ext(&b.ctx, &order, &vals, true, false);
                                for k in 0..roots.len() {
                                    if taint[&roots[k]] {
                                        cx.ev.count("value_vs_point_eval_skipped_tainted");
                                        continue;
                                    }
                                    cx.ev.count("value_vs_point_eval");
                                    if !same(outv[k][i].v, pout[k]) {
                                        fail!(
                                            format!("grad-value-vs-point-{}", $what),
                                            "{}: output {k} {:?}: gradient evaluator value {} but point evaluator {}",
                                            $what,
                                            b.ctx.get_op(roots[k]).unwrap(),
                                            fl_to_string(outv[k][i].v),
                                            fl_to_string(pout[k])
                                        );
                                    }
                                }
                            }
                        }
                    }};
                }
                backend!(VmFunction, "vm");
                // four registers: nearly every tape spills, so the gradient
                // interpreter's Load / Store are exercised (255 registers never spill
                // on programs of this size)
                backend!(fidget_core::vm::GenericVmFunction<4>, "vm");
                backend!(JitFunction, "jit");
                if nontrivial {
                    cx.ev.nontrivial(case);
                }
                Ok(())
            }
            Case::Symbolic { dag, points, out } => {
                let mut b = build_dag(dag);
                let mut pool = b.var_nodes.clone();
                pool.extend(b.nodes.iter().cloned());
                let root = pool[sel_index(*out, pool.len())];
                let mut any = false;
                for (vi, var) in b.vars.clone().into_iter().enumerate() {
                    let d = b.ctx.deriv(root, var).unwrap();
                    for p in points {
                        let vars64: HashMap<Var, f64> = b
                            .vars
                            .iter()
                            .enumerate()
                            .map(|(i, v)| (*v, p[i].0 as f64))
                            .collect();
                        let Some((_v, dref, dabs)) = forward64(&b.ctx, root, &vars64, var) else {
                            cx.ev.count("symbolic_skipped_locus_or_range");
                            continue;
                        };
                        let dsym = eval64(&b.ctx, d, &vars64);
                        cx.ev.count("symbolic_obligations");
                        // the derivative graph contains constants folded in
                        // f32 by the context (relative error 6e-8 per term)
                        let tol = 1e-5 * (dabs + 1.0);
                        if !((dsym - dref).abs() <= tol) {
                            fail!(
                                "symbolic-deriv",
                                "d/d(var {vi}) of {:?}: symbolic derivative evaluates to {dsym} but forward-mode f64 gives {dref} at {:?}",
                                b.ctx.get_op(root).unwrap(),
                                p
                            );
                        }
                        if dref != 0.0 {
                            any = true;
                        }
                    }
                }
                if any {
                    cx.ev.nontrivial(case);
                }
                Ok(())
            }
            Case::Transform { mat, point } => {
                let m: Vec<f32> = mat.iter().map(|f| f.0).collect();
                let mat = Matrix4::from_row_slice(&m);
                let g: Vec<Grad> = point
                    .iter()
                    .map(|p| Grad::new(p.0.0, p.1.0, p.2.0, p.3.0))
                    .collect();
                if !g.iter().all(grad_ok) {
                    return Ok(());
                }
                let (gx, gy, gz) =
                    <Grad as Transformable>::transform(g[0], g[1], g[2], &mat);
                // f64 reference: rows r_i . (x, y, z, 1), divided by w
                let val = |r: usize| -> (f64, [f64; 3], f64) {
                    let mut v = mat[(r, 3)] as f64;
                    let mut d = [0.0; 3];
                    let mut scale = (mat[(r, 3)] as f64).abs();
                    for c in 0..3 {
                        v += mat[(r, c)] as f64 * g[c].v as f64;
                        scale += (mat[(r, c)] as f64 * g[c].v as f64).abs();
                        for i in 0..3 {
                            d[i] += mat[(r, c)] as f64 * g[c].d(i) as f64;
                        }
                    }
                    (v, d, scale)
                };
                let (w, dw, wscale) = val(3);
                if w.abs() < 1e-2 * wscale.max(1e-3) {
                    cx.ev.count("transform_skipped_w_near_zero");
                    return Ok(());
                }
                for (r, got) in [gx, gy, gz].into_iter().enumerate() {
                    let (n, dn, nscale) = val(r);
                    let ev = n / w;
                    let vtol = 1e-5 * (nscale / w.abs() + 1.0);
                    if !((got.v as f64 - ev).abs() <= vtol) {
                        fail!("transform-value", "row {r}: value {} expected {ev}", got.v);
                    }
                    for i in 0..3 {
                        let ed = (dn[i] * w - n * dw[i]) / (w * w);
                        let scale = (dn[i] / w).abs() + (n * dw[i] / (w * w)).abs();
                        let tol = 1e-4 * scale + 1e-5 * (nscale / w.abs()) + 1e-12;
                        cx.ev.count("transform_deriv_obligations");
                        if !((got.d(i) as f64 - ed).abs() <= tol) {
                            fail!(
                                "transform-deriv",
                                "row {r} partial {i}: {} expected {ed} (tol {tol:e}); mat {:?} point {:?}",
                                got.d(i),
                                m,
                                g
                            );
                        }
                    }
                }
                cx.ev.nontrivial(case);
                Ok(())
            }
        }
    }

    fn reduce(case: &Case) -> Vec<Case> {
        let mut out = vec![];
        match case {
            Case::Local { dag, points } => {
                if points.len() > 1 {
                    for p in points {
                        out.push(Case::Local {
                            dag: dag.clone(),
                            points: vec![p.clone()],
                        });
                    }
                }
                let nv = dag.nvars as usize;
                for k in (0..dag.nodes.len()).rev().take(30) {
                    let (d2, _) = dag.prune(&[nv + k]);
                    if d2.nodes.len() < dag.nodes.len() && !d2.nodes.is_empty() {
                        out.push(Case::Local {
                            dag: d2,
                            points: points.clone(),
                        });
                    }
                }
            }
            Case::Symbolic { dag, points, out: o } => {
                let nv = dag.nvars as usize;
                let plen = nv + dag.nodes.len();
                let r = sel_index(*o, plen);
                let (d2, nr) = dag.prune(&[r]);
                if d2.nodes.len() < dag.nodes.len() && !d2.nodes.is_empty() {
                    out.push(Case::Symbolic {
                        out: sel_for(nr[0], nv + d2.nodes.len()),
                        dag: d2,
                        points: points.clone(),
                    });
                }
                if points.len() > 1 {
                    for p in points {
                        out.push(Case::Symbolic {
                            dag: dag.clone(),
                            points: vec![p.clone()],
                            out: *o,
                        });
                    }
                }
            }
            _ => {}
        }
        out
    }

    fn plan(tier: Tier) -> Plan {
        match tier {
            Tier::Quick => Plan {
                workers: 16,
                cases_per_worker: 10000,
                timeout_s: 1800,
                max_shrink_iters: 2000,
            },
            Tier::Thorough => Plan {
                workers: 16,
                cases_per_worker: 400000,
                timeout_s: 14400,
                max_shrink_iters: 2000,
            },
        }
    }

    fn rule() -> &'static str {
        "three generated case kinds. Local: DAGs over all opcodes with every node exported, 1-9 samples whose inputs carry \
         ARBITRARY seed gradients (value, dx, dy, dz all random), evaluated by the interpreter and JIT gradient-slice \
         evaluators; per node, from the evaluator's own operand duals, the value must equal the opcode's point meaning and \
         each partial must equal the textbook rule ka*da+kb*db within 1e-4 of the sum of |terms| (nodes within 1e-3 of a \
         non-differentiable locus or outside a comfortable f32 range are skipped and counted); the value of every output must \
         equal the point evaluator's. Symbolic: Context::deriv of a random node w.r.t. every variable, evaluated in f64, \
         equals an independent f64 forward-mode derivative of the original graph. Transform: Grad transform by random affine \
         / projective matrices vs the f64 Jacobian. Non-trivial = a composed node (operands computed) with a non-zero \
         derivative (Local), a non-zero derivative (Symbolic), any transform case."
    }

    fn assumptions() -> Vec<&'static str> {
        vec![
            "x86_64 JIT only",
            "tolerance 1e-4 relative to the sum of |terms| of the derivative rule",
        ]
    }
}
