//! Independent reference semantics of every opcode, written from the
//! documentation of `fidget_core::compiler::RegOp` / `Context` constructors.
use crate::spec::{BinOp, UnOp};

pub fn un(op: UnOp, a: f32) -> f32 {
    match op {
        UnOp::Neg => -a,
        UnOp::Abs => a.abs(),
        UnOp::Recip => 1.0 / a,
        UnOp::Sqrt => a.sqrt(),
        UnOp::Square => a * a,
        UnOp::Floor => a.floor(),
        UnOp::Ceil => a.ceil(),
        UnOp::Round => a.round(), // half-way cases away from zero
        UnOp::Sin => a.sin(),
        UnOp::Cos => a.cos(),
        UnOp::Tan => a.tan(),
        UnOp::Asin => a.asin(),
        UnOp::Acos => a.acos(),
        UnOp::Atan => a.atan(),
        UnOp::Exp => a.exp(),
        UnOp::Ln => a.ln(),
        // "if arg == 0 { 1 } else { 0 }"
        UnOp::Not => {
            if a == 0.0 {
                1.0
            } else {
                0.0
            }
        }
        // defined as this hash function of the bit pattern
        UnOp::Rand => fidget_core::rng::rand(a.to_bits()),
    }
}

pub fn bin(op: BinOp, a: f32, b: f32) -> f32 {
    match op {
        BinOp::Add => a + b,
        BinOp::Sub => a - b,
        BinOp::Mul => a * b,
        BinOp::Div => a / b,
        BinOp::Atan2 => a.atan2(b),
        // NaN-propagating min / max; ties return either operand
        BinOp::Min => {
            if a.is_nan() || b.is_nan() {
                f32::NAN
            } else if a < b {
                a
            } else {
                b
            }
        }
        BinOp::Max => {
            if a.is_nan() || b.is_nan() {
                f32::NAN
            } else if a > b {
                a
            } else {
                b
            }
        }
        BinOp::Compare => {
            if a.is_nan() || b.is_nan() {
                f32::NAN
            } else if a < b {
                -1.0
            } else if a > b {
                1.0
            } else {
                0.0
            }
        }
        BinOp::Mod => a.rem_euclid(b),
        // "if lhs == 0 { lhs } else { rhs }"
        BinOp::And => {
            if a == 0.0 {
                a
            } else {
                b
            }
        }
        // "if lhs != 0 { lhs } else { rhs }"
        BinOp::Or => {
            if a != 0.0 {
                a
            } else {
                b
            }
        }
        BinOp::Mix => f32::from_bits(fidget_core::rng::mix(a.to_bits(), b.to_bits())),
    }
}

/// Bit-identical, or both NaN
pub fn same(a: f32, b: f32) -> bool {
    a.to_bits() == b.to_bits() || (a.is_nan() && b.is_nan())
}

/// The C02 tolerance: bit-identical, both NaN, or (for min/max only) the two
/// operands are zeros and the results are zeros
pub fn same_tol(op: Option<BinOp>, x: f32, y: f32, a: f32, b: f32) -> bool {
    if same(x, y) {
        return true;
    }
    matches!(op, Some(BinOp::Min | BinOp::Max))
        && a == 0.0
        && b == 0.0
        && x == 0.0
        && y == 0.0
}

/// Distance in units in the last place (large if signs differ / NaN)
pub fn ulps(a: f32, b: f32) -> u64 {
    if a.is_nan() || b.is_nan() {
        return u64::MAX;
    }
    if a == b {
        return 0;
    }
    let ord = |f: f32| -> i64 {
        let b = f.to_bits() as i32;
        (if b < 0 { i32::MIN - b } else { b }) as i64
    };
    (ord(a) - ord(b)).unsigned_abs()
}

////////////////////////////////////////////////////////////////////////////////
// f64 forward-mode dual numbers (value + 3 partials)

#[derive(Copy, Clone, Debug)]
pub struct D {
    pub v: f64,
    pub d: [f64; 3],
}

impl D {
    pub fn c(v: f64) -> D {
        D { v, d: [0.0; 3] }
    }
    fn map(self, v: f64, k: f64) -> D {
        D {
            v,
            d: [self.d[0] * k, self.d[1] * k, self.d[2] * k],
        }
    }
    fn lin(a: D, ka: f64, b: D, kb: f64, v: f64) -> D {
        D {
            v,
            d: [
                a.d[0] * ka + b.d[0] * kb,
                a.d[1] * ka + b.d[1] * kb,
                a.d[2] * ka + b.d[2] * kb,
            ],
        }
    }
}

/// Textbook derivative rule of each unary opcode (f64).  Returns None if the
/// opcode is not differentiable at `a` in a way a caller could rely on.
pub fn un_d(op: UnOp, a: D) -> D {
    let x = a.v;
    match op {
        UnOp::Neg => a.map(-x, -1.0),
        UnOp::Abs => a.map(x.abs(), if x < 0.0 { -1.0 } else { 1.0 }),
        UnOp::Recip => a.map(1.0 / x, -1.0 / (x * x)),
        UnOp::Sqrt => a.map(x.sqrt(), 0.5 / x.sqrt()),
        UnOp::Square => a.map(x * x, 2.0 * x),
        UnOp::Floor => a.map(x.floor(), 0.0),
        UnOp::Ceil => a.map(x.ceil(), 0.0),
        UnOp::Round => a.map(x.round(), 0.0),
        UnOp::Sin => a.map(x.sin(), x.cos()),
        UnOp::Cos => a.map(x.cos(), -x.sin()),
        UnOp::Tan => a.map(x.tan(), 1.0 / (x.cos() * x.cos())),
        UnOp::Asin => a.map(x.asin(), 1.0 / (1.0 - x * x).sqrt()),
        UnOp::Acos => a.map(x.acos(), -1.0 / (1.0 - x * x).sqrt()),
        UnOp::Atan => a.map(x.atan(), 1.0 / (1.0 + x * x)),
        UnOp::Exp => a.map(x.exp(), x.exp()),
        UnOp::Ln => a.map(x.ln(), 1.0 / x),
        UnOp::Not => a.map(if x == 0.0 { 1.0 } else { 0.0 }, 0.0),
        UnOp::Rand => a.map(f64::NAN, 0.0), // value is taken from f32 refsem by callers
    }
}

pub fn bin_d(op: BinOp, a: D, b: D) -> D {
    let (x, y) = (a.v, b.v);
    match op {
        BinOp::Add => D::lin(a, 1.0, b, 1.0, x + y),
        BinOp::Sub => D::lin(a, 1.0, b, -1.0, x - y),
        BinOp::Mul => D::lin(a, y, b, x, x * y),
        BinOp::Div => D::lin(a, 1.0 / y, b, -x / (y * y), x / y),
        BinOp::Atan2 => {
            let r2 = x * x + y * y;
            D::lin(a, y / r2, b, -x / r2, x.atan2(y))
        }
        BinOp::Min => {
            if x < y {
                a
            } else {
                b
            }
        }
        BinOp::Max => {
            if x > y {
                a
            } else {
                b
            }
        }
        BinOp::Compare => D::c(if x < y {
            -1.0
        } else if x > y {
            1.0
        } else {
            0.0
        }),
        BinOp::Mod => {
            // x - y*floor(x/y)
            let q = (x / y).floor();
            D::lin(a, 1.0, b, -q, x.rem_euclid(y))
        }
        BinOp::And => {
            if x == 0.0 {
                a
            } else {
                b
            }
        }
        BinOp::Or => {
            if x != 0.0 {
                a
            } else {
                b
            }
        }
        BinOp::Mix => D::c(f64::NAN),
    }
}
