//! One libFuzzer target for every property: FV_FUZZ_PROP selects it.
//! The bytes are the random stream of that property's proptest strategy
//! (see harness/src/fuzzing.rs); the oracle is the property's own check.
#![no_main]
use fv::engine::Prop;
use fv::fuzzing::FuzzState;
use libfuzzer_sys::fuzz_target;
use std::path::PathBuf;
use std::sync::Mutex;

trait Runner: Send {
    fn one(&mut self, data: &[u8]) -> Option<PathBuf>;
    fn dump(&self);
}
struct R<P: Prop>(FuzzState<P>);
unsafe impl<P: Prop> Send for R<P> {}
impl<P: Prop> Runner for R<P> {
    fn one(&mut self, data: &[u8]) -> Option<PathBuf> {
        self.0.one(data)
    }
    fn dump(&self) {
        self.0.dump()
    }
}

static STATE: Mutex<Option<Box<dyn Runner>>> = Mutex::new(None);

extern "C" fn at_exit() {
    if let Ok(g) = STATE.try_lock() {
        if let Some(s) = g.as_ref() {
            s.dump();
        }
    }
}

fn make() -> Box<dyn Runner> {
    let id = std::env::var("FV_FUZZ_PROP").expect("FV_FUZZ_PROP");
    let out = PathBuf::from(std::env::var("FV_FUZZ_OUT").expect("FV_FUZZ_OUT"));
    macro_rules! mk {
        ($($name:literal => $m:ident),*) => {
            match id.as_str() {
                $($name => Box::new(R::<fv::$m::P>(FuzzState::new(out))) as Box<dyn Runner>,)*
                other => panic!("unknown property {other}"),
            }
        };
    }
    let r = mk!(
        "C01" => p01, "C02" => p02, "C03" => p03, "C04" => p04, "C05" => p05, "C06" => p06, "C07" => p07,
        "C08" => p08, "C09" => p09, "C10" => p10, "C11" => p11, "C12" => p12, "C13" => p13, "C14" => p14,
        "C15" => p15, "C16" => p16, "C17" => p17, "C18" => p18, "C19" => p19, "C20" => p20
    );
    unsafe {
        libc::atexit(at_exit);
    }
    r
}

fuzz_target!(|data: &[u8]| {
    let mut g = STATE.lock().unwrap();
    if g.is_none() {
        *g = Some(make());
    }
    let s = g.as_mut().unwrap();
    if let Some(path) = s.one(data) {
        s.dump();
        eprintln!("FUZZ-VIOLATION replay={}", path.display());
        drop(g);
        std::process::abort();
    }
});
