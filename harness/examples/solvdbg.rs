#[path = "solver_copy.rs"]
#[allow(dead_code, unused)]
mod solver_copy;
use fidget_core::context::Context;
use fidget_core::eval::MathFunction;
use fidget_core::var::Var;
use fidget_core::vm::VmFunction;
use solver_copy::{solve, Parameter};
use std::collections::HashMap;
fn main() {
    let txt = std::fs::read_to_string(std::env::args().nth(1).unwrap()).unwrap();
    let v: serde_json::Value = serde_json::from_str(&txt).unwrap();
    let c = &v["case"];
    let n = c["n"].as_u64().unwrap() as usize;
    let geti = |k: &str| -> Vec<i64> { c[k].as_array().unwrap().iter().map(|x| x.as_i64().unwrap()).collect() };
    let off = geti("off"); let solv = geti("sol"); let start = geti("start");
    let fixed: Vec<bool> = c["fixed"].as_array().unwrap().iter().map(|x| x.as_bool().unwrap()).collect();
    let exact = c["exact"].as_bool().unwrap(); let xyz = c["xyz"].as_bool().unwrap();
    let unit = if exact { 1.0 } else { 1.0 / 16.0 };
    let mut a = vec![vec![0.0f64; n]; n];
    for i in 0..n { let mut s = 0.0f64; for j in 0..n { if i != j { let k = off[(i * n + j) % off.len()]; let v = if k % 5 < 3 { 0.0 } else { k as f64 * unit }; a[i][j] = v; s += v.abs(); } } a[i][i] = (2.0 * s + 1.0).ceil(); }
    let x: Vec<f64> = (0..n).map(|i| { let k = solv[i % solv.len()] as f64; if exact { k } else { k / 4.0 } }).collect();
    let b: Vec<f64> = (0..n).map(|i| (0..n).map(|j| a[i][j] * x[j]).sum()).collect();
    let var_of = |i: usize| -> Var { if xyz && i < 3 { [Var::X, Var::Y, Var::Z][i] } else { serde_json::from_value::<Var>(serde_json::json!({"V": 3000 + i as u64 * 7})).unwrap_or_else(|_| Var::new()) } };
    let vars: Vec<Var> = (0..n).map(var_of).collect();
    let mut ctx = Context::new();
    let mut eqs = vec![];
    for i in 0..n { let mut acc = ctx.constant(-(b[i] as f32)); for j in 0..n { if a[i][j] != 0.0 { let v = ctx.var(vars[j]); let t = ctx.mul(v, a[i][j] as f32).unwrap(); acc = ctx.add(acc, t).unwrap(); } } eqs.push(VmFunction::new(&ctx, &[acc]).unwrap()); }
    let mut params = HashMap::new();
    for j in 0..n { let p = if fixed[j % fixed.len()] { Parameter::Fixed(x[j] as f32) } else if exact { Parameter::Free(x[j] as f32) } else { Parameter::Free(start[j % start.len()] as f32 / 4.0) }; params.insert(vars[j], p); }
    eprintln!("n {n} free {}", params.values().filter(|p| matches!(p, Parameter::Free(_))).count());
    let r = solve(&eqs, &params);
    eprintln!("returned ok={}", r.is_ok());
}
