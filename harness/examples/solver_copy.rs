// Solver for systems of equations expressed as sets of [Function] objects
#![warn(missing_docs)]
use fidget_core::{
    eval::{BulkEvaluator, Function, Tape, TracingEvaluator},
    types::Grad,
    var::Var,
};
use std::collections::HashMap;

/// Input parameter to the solver
#[derive(Copy, Clone, Debug)]
pub enum Parameter {
    /// Free variable with the given starting position
    Free(f32),
    /// Fixed variable at the given value
    Fixed(f32),
}

/// Error indicating that we could not solve for matrix pseudo-inverse
#[derive(Debug)]
pub struct SingularMatrix(&'static str);

/// Workspace for solvers
struct Solver<'a, F: Function> {
    /// Input parameters
    vars: &'a HashMap<Var, Parameter>,

    /// Tapes for bulk gradient evaluation of each constraint
    grad_tapes: Vec<<F::GradSliceEval as BulkEvaluator>::Tape>,

    /// Tapes for single-point evaluation of each constraint
    point_tapes: Vec<<F::PointEval as TracingEvaluator>::Tape>,

    /// Bulk gradient evaluator, for use in computing the Jacobian
    grad_eval: F::GradSliceEval,

    /// Single-point evaluator, for use in checking our current error
    point_eval: F::PointEval,

    /// Input data for use when calling the gradient bulk evaluator
    input_grad: Vec<Vec<Grad>>,

    /// Input data for use when calling the single-point evaluator
    input_point: Vec<f32>,

    /// Map from (free) variables to the index of their gradient
    ///
    /// We evaluate 3x gradients per sample, so for `grad_index = gi`, the
    /// relevant derivative will be `out[gi / 3].d(gi % 3)`
    grad_index: HashMap<Var, usize>,
}

impl<'a, F: Function> Solver<'a, F> {
    fn new(eqs: &'a [F], vars: &'a HashMap<Var, Parameter>) -> Self {
        // Build our per-constraint
        let grad_tapes = eqs
            .iter()
            .map(|f| f.grad_slice_tape(Default::default()))
            .collect::<Vec<_>>();
        let point_tapes = eqs
            .iter()
            .map(|f| f.point_tape(Default::default()))
            .collect::<Vec<_>>();

        // Build a map from *free* variable to index of its gradient, since
        // we'll be using tightly-packed Vec everywhere here
        //
        // (We ignore the gradient of fixed variables)
        let grad_index: HashMap<Var, usize> = vars
            .iter()
            .filter(|(_v, p)| matches!(p, Parameter::Free(..)))
            .enumerate()
            .map(|(i, (v, _p))| (*v, i))
            .collect();

        let var_count = vars
            .len()
            .max(grad_tapes.iter().map(|t| t.vars().len()).max().unwrap_or(0));

        // Build a scratch array with rows for each variable, and enough columns
        // to simultaneously compute all of the gradients that we need
        let input_grad =
            vec![
                vec![Grad::from(0f32); grad_index.len().div_ceil(3)];
                var_count
            ];
        let input_point = vec![0f32; var_count];

        Self {
            vars,
            grad_tapes,
            point_tapes,
            grad_eval: Default::default(),
            point_eval: Default::default(),
            grad_index,

            input_grad,
            input_point,
        }
    }

    /// Computes the Jacobian into `cur`
    ///
    /// # Panics
    /// If `jacobian` or `result` are an invalid size
    fn get_jacobian(
        &mut self,
        cur: &[f32],
        jacobian: &mut nalgebra::DMatrix<f32>,
        result: &mut nalgebra::DVector<f32>,
    ) {
        for (ti, tape) in self.grad_tapes.iter().enumerate() {
            // Update the values in the gradient evaluation array
            for (v, p) in self.vars {
                let Some(i) = tape.vars().get(v) else {
                    continue;
                };
                let slice = &mut self.input_grad[i];
                match p {
                    Parameter::Free(..) => {
                        let gi = self.grad_index[v];
                        for (j, v) in slice.iter_mut().enumerate() {
                            *v = Grad::new(
                                cur[gi],
                                if j * 3 == gi { 1.0 } else { 0.0 },
                                if j * 3 + 1 == gi { 1.0 } else { 0.0 },
                                if j * 3 + 2 == gi { 1.0 } else { 0.0 },
                            );
                        }
                    }
                    Parameter::Fixed(f) => {
                        slice.fill(Grad::new(*f, 0.0, 0.0, 0.0));
                    }
                };
            }
            // Do the actual gradient evaluation
            let out = self.grad_eval.eval(tape, &self.input_grad).unwrap();

            // Populate this row of the Jacobian
            for gi in 0..self.grad_index.len() {
                *jacobian.get_mut((ti, gi)).unwrap() = out[0][gi / 3].d(gi % 3);
            }
            result[ti] = out[0][0].v;
        }
    }

    fn get_err(&mut self, cur: &[f32], delta: &[f32]) -> f32 {
        let mut err = 0f32;
        for tape in self.point_tapes.iter() {
            // Update the free values in the gradient evaluation array
            //
            // (we preloaded unit gradients and fixed values in the appropriate
            // locations, which don't change from evaluation to evaluation)
            for (v, p) in self.vars {
                let Some(i) = tape.vars().get(v) else {
                    continue;
                };
                let f = &mut self.input_point[i];
                match p {
                    Parameter::Free(..) => {
                        let gi = self.grad_index[v];
                        *f = cur[gi] - delta[gi];
                    }
                    Parameter::Fixed(p) => {
                        *f = *p;
                    }
                };
            }
            // Do the actual gradient evaluation
            let (out, _t) =
                self.point_eval.eval(tape, &self.input_point).unwrap();
            err += out[0].powi(2); // TODO: consolidate into a single tape
        }
        err
    }
}

/// Least-squares minimization on a set of functions
///
/// Returns a map from free variable to its final value
///
/// Minimization is accomplished using a relatively basic implementation of
/// the [Levenberg-Marquardt algorithm](https://en.wikipedia.org/wiki/Levenberg%E2%80%93Marquardt_algorithm).
///
/// ## References
/// - [The Levenberg-Marquardt Algorithm (Ranganathan 2004)](http://ananth.in/docs/lmtut.pdf)
/// - [Basics on Continuous Optimization § Levenberg-Marquardt](https://www.brnt.eu/phd/node10.html#SECTION00622700000000000000)
/// - [Improvements to the Levenberg-Marquardt algorithm for nonlinear
///   least-squares minimization (Transtrum 2012)](https://arxiv.org/pdf/1201.5885)
pub fn solve<F: Function>(
    eqs: &[F],
    vars: &HashMap<Var, Parameter>,
) -> Result<HashMap<Var, f32>, SingularMatrix> {
    let tapes = eqs
        .iter()
        .map(|f| f.grad_slice_tape(Default::default()))
        .collect::<Vec<_>>();

    // Current values for free variables
    let mut cur = HashMap::new();
    for (v, p) in vars {
        if let Parameter::Free(f) = *p {
            cur.insert(*v, f);
        }
    }

    let mut solver = Solver::new(eqs, vars);

    // Build an array of current values for each free variable
    let mut cur = vec![0f32; solver.grad_index.len()];
    for (v, i) in &solver.grad_index {
        let Parameter::Free(f) = vars[v] else {
            unreachable!();
        };
        cur[*i] = f;
    }

    // Working arrays for the current Jacobian and result
    let mut jacobian = nalgebra::DMatrix::repeat(tapes.len(), cur.len(), 0f32);
    let mut result = nalgebra::DVector::repeat(tapes.len(), 0f32);

    let mut damping = 1.0;
    let mut prev_err = f32::INFINITY;
    let mut err_buf = [0f32; 4];
    for i in 0.. {
        solver.get_jacobian(&cur, &mut jacobian, &mut result);

        // Early exit if we're done
        if result.iter().all(|v| *v == 0.0) {
            break;
        }

        let jt = jacobian.transpose();
        let jt_j = &jt * &jacobian;

        let jt_r = jt * &result;

        // TODO: be optimistic and evaluate the full gradient on the first
        // attempt, since it should usually succeed?
        let mut inner = 0;
        let (err, step) = loop {
            let adjusted = &jt_j
                + damping * nalgebra::DMatrix::from_diagonal(&jt_j.diagonal());

            let delta = adjusted
                .svd(true, true)
                .solve(&jt_r, f32::EPSILON)
                .map_err(SingularMatrix)?;

            let err = solver.get_err(&cur, delta.as_slice());
            inner += 1;
            if inner % 50 == 0 || !damping.is_finite() || err.is_nan() {
                eprintln!("outer {i} inner {inner}: damping {damping:e} err {err:e} prev_err {prev_err:e} |delta| {:e}", delta.norm());
            }
            if inner > 400 { eprintln!("giving up"); std::process::exit(9); }
            if err > prev_err {
                // Keep going in this inner loop, taking smaller steps
                damping *= 1.5;
            } else {
                // We found a good step size, so reduce damping
                damping /= 3.0;
                break (err, delta);
            }
        };

        // Update our current position, checking whether it actually changed
        // (i.e. whether our steps are below the floating-point epsilon)
        //
        // TODO: improve exit criteria?
        let mut changed = false;
        for gi in 0..solver.grad_index.len() {
            let prev = cur[gi];
            cur[gi] -= step[gi];
            changed |= prev != cur[gi];
        }
        err_buf[i % err_buf.len()] = err;
        eprintln!("outer {i}: accepted err {err:e} damping {damping:e} changed {changed}");
        if !changed
            || err == 0.0
            || damping == 0.0
            || err_buf.iter().all(|e| *e == err_buf[0])
        {
            break;
        }
        prev_err = err;
    }

    // Return the new "current" values, which are our optimized position
    let out = solver
        .grad_index
        .into_iter()
        .map(|(v, i)| (v, cur[i]))
        .collect();
    Ok(out)
}

