use fidget_core::context::Context;
use fidget_core::eval::{Function, MathFunction, TracingEvaluator};
use fidget_core::types::Interval;
use fidget_core::vm::VmFunction;
use fidget_jit::JitFunction;
fn run<F: MathFunction + Function<Trace = fidget_core::vm::VmTrace>>(name: &str) {
    let mut ctx = Context::new();
    let x = ctx.x(); let y = ctx.y(); let z = ctx.z();
    let n8 = ctx.neg(y).unwrap();
    let n7 = ctx.min(z, n8).unwrap();
    let n5 = ctx.compare(x, x).unwrap();
    let n4 = ctx.max(x, n5).unwrap();
    let n3 = ctx.atan2(n7, n4).unwrap();
    let n2 = ctx.tan(n3).unwrap();
    let n1 = ctx.min(n7, n2).unwrap();
    let n0 = ctx.ln(n1).unwrap();
    let roots = [n0, n1, n2, n3, n4, n5, n7];
    let f = F::new(&ctx, &roots).unwrap();
    let vars = f.vars();
    let mut p = vec![0f32; 3]; let mut iv = vec![Interval::from(0.0); 3];
    let set = |v: &fidget_core::var::Var, pv: f32, lo: f32, hi: f32, p: &mut Vec<f32>, iv: &mut Vec<Interval>| { if let Some(i) = vars.get(v) { p[i] = pv; iv[i] = Interval::new(lo, hi); } };
    set(&fidget_core::var::Var::X, 0.0007769071, -0.000849984, 0.0008135039, &mut p, &mut iv);
    set(&fidget_core::var::Var::Y, -32528.922, -32529.049, -32528.756, &mut p, &mut iv);
    set(&fidget_core::var::Var::Z, 1000000.0, 1000000.0, 1000000.0, &mut p, &mut iv);
    let t = f.point_tape(Default::default());
    let mut e = F::new_point_eval();
    let (o, tr) = e.eval(&t, &p).unwrap();
    println!("{name} point: {:?} trace {:?}", o, tr.map(|t| format!("{:?}", t.as_slice())));
    let t = f.interval_tape(Default::default());
    let mut e = F::new_interval_eval();
    let (o, tr) = e.eval(&t, &iv).unwrap();
    println!("{name} interval: {:?} trace {:?}", o, tr.map(|t| format!("{:?}", t.as_slice())));
}
fn main() { run::<VmFunction>("vm"); run::<JitFunction>("jit"); }
