use fv::build::*;
use fv::spec::*;
fn main() {
    let txt = std::fs::read_to_string(std::env::args().nth(1).unwrap()).unwrap();
    let v: serde_json::Value = serde_json::from_str(&txt).unwrap();
    let dag: DagSpec = serde_json::from_value(v["case"]["shape"]["Dag"]["dag"].clone()).unwrap();
    let b = build_dag(&dag);
    let p: Vec<Fl> = std::env::args().skip(2).map(|s| Fl(s.parse::<f32>().unwrap())).collect();
    let pm = point_map(&b.vars, &p);
    let roots: Vec<_> = b.nodes.clone();
    let vals = eval_all(&b.ctx, &roots, &pm);
    for (i, n) in b.nodes.iter().enumerate() {
        println!("{i}: {:?} = {:?}", b.ctx.get_op(*n).unwrap(), vals[n]);
    }
}
